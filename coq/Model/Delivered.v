(** C14 — the BYTES a data-source result delivers.

    Every data source of the anchored files answers with
    [types.Reference{Artifact: the BIOS image, AddressMapper: biosimage.PhysMemMapper{},
    Ranges: physical addresses}]; what gets hashed and extended is
    [Data.RawBytes()] = [References.RawBytes()] = per reference [Reference.RawBytes()].
    That function is ALREADY modelled for property C11 (Model/Refs.v: [ref_rawbytes] --
    SortAndMerge of the reference's ranges, buffer of the merged total, one
    AddressMapper.Resolve + Artifact.ReadAt per merged range); this file only instantiates it
    for the artifact and the mapper the data sources use and adds the thin layer between
    "what the walker reported for the selected nodes" and "the reference":

    - pkg/bootflow/datasources/mem_ranges.go   MemRanges.Data (ranges as given)
    - pkg/bootflow/datasources/uefi_guid.go    UEFIGUIDFirst.Data for one GUID (no merging:
                                               the container fallback of the walker hands in the
                                               same range once per object in the container)
    - pkg/bootflow/datasources/uefi_files.go   UEFIFiles.Data (SortAndMerge before the reference
                                               is built; no selected file = empty Data)

    and the specification-side vocabulary ([pick], [covers], [bytes_at_*]).  No proofs here.
    Ranges are the pairs (Offset, Length) of Model/AddrMap.v; Model/Ranges.v's record is used
    qualified. *)
From CSS Require Import Lib.Base Model.AddrMap.
From CSS Require Model.Ranges Model.Refs.

Definition zlen {A} (l : list A) : Z := Z.of_nat (length l).

Definition to_r (r : range) : Ranges.range := Ranges.mkR (fst r) (snd r).
Definition from_r (r : Ranges.range) : range := (Ranges.roff r, Ranges.rlen r).

(** [*biosimage.BIOSImage] holding [content]: Size() = len(Content),
    ReadAt = bytes.NewReader(Content).ReadAt (not a types.RawBytes artifact). *)
Definition bios_image (content : list Z) : Refs.art := Refs.mkArt 0 0 false content.

(** [&types.Reference{Artifact: img, MappedRanges{AddressMapper: PhysMemMapper{}, Ranges: rs}}] *)
Definition phys_reference (content : list Z) (rs : list range) : Refs.ref :=
  Refs.mkRef (bios_image content) Refs.MPhys (map to_r rs).

(** [Reference.RawBytes()] of it *)
Definition delivered (content : list Z) (rs : list range) : outcome (list Z) :=
  Refs.ref_rawbytes (phys_reference content rs).

(** [Data.RawBytes()] of a Data holding several such references *)
Definition delivered_data (content : list Z) (refs : list (list range)) : outcome (list Z) :=
  Refs.refs_rawbytes (map (phys_reference content) refs).

(** ** Data sources: from what the walker handed to the callback for the selected nodes
    (image offsets, [MAXU64] = unknown) to the delivered bytes *)

Definition unknown (r : range) : bool := fst r =? MAXU64.

(** [addrMapper.UnresolveFullImageOffset(img, node.Range)] per selected node *)
Definition to_addrs (size : Z) (reported : list range) : list range :=
  map_ranges (pmm_unresolve size) reported.

(** [Ranges.SortAndMerge] on pairs *)
Definition sort_merge (rs : list range) : list range :=
  map from_r (Ranges.ranges_sm (map to_r rs)).

(** [MemRanges(rs).Data] then [Data.RawBytes]: PhysMemMapper.Resolve never fails, the ranges go
    into the reference as given. *)
Definition mem_ranges_bytes (content : list Z) (rs : list range) : outcome (list Z) :=
  delivered content rs.

(** [UEFIGUIDFirst{g}.Data] then [Data.RawBytes]; [reported]: the ranges the walker (with the
    container fallback) handed over for the objects named [g], in visit order.  An unknown
    offset or no object at all is an error; the ranges are NOT merged. *)
Definition guid_first_bytes (content : list Z) (reported : list range) : outcome (list Z) :=
  if existsb unknown reported then Err 1
  else match reported with
       | [] => Err 1
       | _ => delivered content (to_addrs (zlen content) reported)
       end.

(** [UEFIFiles(pred).Data] then [Data.RawBytes]: the addresses are sorted and merged before the
    reference is built; no selected file gives the empty Data (no reference, no bytes). *)
Definition uefi_files_bytes (content : list Z) (reported : list range) : outcome (list Z) :=
  if existsb unknown reported then Err 1
  else match sort_merge (to_addrs (zlen content) reported) with
       | [] => Ok []
       | rs => delivered content rs
       end.

(** ** Specification side: the bytes of a set of image positions *)

(** the elements of [l] (positions [k], [k+1], ...) at the positions [cov] selects, each once,
    in ascending order *)
Fixpoint pick (cov : Z -> bool) (k : Z) (l : list Z) : list Z :=
  match l with
  | [] => []
  | b :: t => if cov k then b :: pick cov (k + 1) t else pick cov (k + 1) t
  end.

(** position/address [k] lies in one of the ranges *)
Definition covers (rs : list range) (k : Z) : bool :=
  existsb (fun r => (fst r <=? k) && (k <? fst r + snd r)) rs.

(** the image bytes whose OFFSET is named by [rs] *)
Definition bytes_at_offsets (content : list Z) (rs : list range) : list Z :=
  pick (covers rs) 0 content.

(** the image bytes whose ADDRESS = 4 GiB - image size + offset is named by [rs] *)
Definition bytes_at_addrs (content : list Z) (rs : list range) : list Z :=
  pick (fun k => covers rs (BASE - zlen content + k)) 0 content.

(** ** Case language helper: an image of [size] bytes of which the harness sends only the
    window [woff, woff + len win) (the bytes outside are sent as zeros; the harness chooses the
    window so that every range of the case lies inside it or outside the image) *)
Definition win_content (size woff : Z) (win : list Z) : list Z :=
  repeat 0 (Z.to_nat woff) ++ win ++ repeat 0 (Z.to_nat (size - woff - zlen win)).
