(** Case language of the C01 correspondence check.  The Go harness
    (harness/cmd/c01) builds a boot flow from the public step / action /
    data-source constructors, runs it with bootengine.BootProcess.Finish and
    writes the flow (as items) together with everything it then read from the
    TPM and the state; [check] runs Model/BootSim.v on the same flow and
    compares.  Hashes are looked up in a per-case table ([H_tbl]); the bytes
    of a reference are computed by Model/Refs.v from the artifact's content
    ([CRef]) or given by the harness ([CLit], for artifacts Refs.v has no
    reader for: the TXT register space). *)
From Coq Require Import Strings.Byte.
From CSS Require Import Lib.Base Lib.Cases Model.TPM Model.BootSim Model.BootSimObjs.
From CSS Require Import Model.BootSimSrc Model.BootSimLedger.
From CSS Require Model.Ranges Model.Refs.
Module RF := CSS.Model.Refs.
Module RG := CSS.Model.Ranges.

(** * Packed byte-string literals (cheap to parse) *)
Inductive bs : Type :=
| BE
| B1 (a : byte) (t : bs)
| B4 (a0 a1 a2 a3 : byte) (t : bs)
| B32 (a0 a1 a2 a3 a4 a5 a6 a7 a8 a9 a10 a11 a12 a13 a14 a15
       a16 a17 a18 a19 a20 a21 a22 a23 a24 a25 a26 a27 a28 a29 a30 a31 : byte) (t : bs).

Definition zb (b : byte) : Z := Z.of_N (Byte.to_N b).

Fixpoint L (b : bs) : list Z :=
  match b with
  | BE => []
  | B1 a t => zb a :: L t
  | B4 a0 a1 a2 a3 t => zb a0 :: zb a1 :: zb a2 :: zb a3 :: L t
  | B32 a0 a1 a2 a3 a4 a5 a6 a7 a8 a9 a10 a11 a12 a13 a14 a15
        a16 a17 a18 a19 a20 a21 a22 a23 a24 a25 a26 a27 a28 a29 a30 a31 t =>
      zb a0 :: zb a1 :: zb a2 :: zb a3 :: zb a4 :: zb a5 :: zb a6 :: zb a7 ::
      zb a8 :: zb a9 :: zb a10 :: zb a11 :: zb a12 :: zb a13 :: zb a14 :: zb a15 ::
      zb a16 :: zb a17 :: zb a18 :: zb a19 :: zb a20 :: zb a21 :: zb a22 :: zb a23 ::
      zb a24 :: zb a25 :: zb a26 :: zb a27 :: zb a28 :: zb a29 :: zb a30 :: zb a31 :: L t
  end.

(** [b[off : off+n]] of an artifact, for hash-table keys that are image ranges *)
Definition sl (b : list Z) (off n : Z) : list Z := firstn (Z.to_nat n) (skipn (Z.to_nat off) b).

(** * References *)
Inductive cref :=
| CLit (b : list Z)
| CRef (r : RF.ref).

Definition cbytes (r : cref) : outcome (list Z) :=
  match r with
  | CLit b => Ok b
  | CRef r => RF.ref_rawbytes r
  end.

(** a *biosimage.BIOSImage with content [img] (read through bytes.Reader) under PhysMemMapper *)
Definition img_ref (id : Z) (img : list Z) (ranges : list (Z * Z)) : cref :=
  CRef (RF.mkRef (RF.mkArt id 1 false img) RF.MPhys (map (fun '(o, n) => RG.mkR o n) ranges)).

(** a types.RawBytes artifact, no mapper *)
Definition raw_ref (id : Z) (b : list Z) (ranges : list (Z * Z)) : cref :=
  CRef (RF.mkRef (RF.mkArt id 0 true b) RF.MNil (map (fun '(o, n) => RG.mkR o n) ranges)).

(** * The platform of the data sources (Model/BootSimSrc.v) over these references *)

(** [img]: the BIOS image among the system artifacts of the State, if any.
    datasources.Bytes(b): the artifact is the byte string, one range [0, len b);
    datasources.MemRanges: one reference into the image under PhysMemMapper;
    forced bytes: the content of a types.RawBytes artifact *)
Definition cplat (img : option (list Z)) : platform cref :=
  mkPlat (match img with Some _ => true | None => false end)
         (fun b => raw_ref 0 b [(0, RF.zlen b)])
         (fun rs => img_ref 1 (match img with Some i => i | None => [] end) rs)
         (fun r => match r with
                   | CRef r' => if RF.araw (RF.rart r') then RF.acontent (RF.rart r') else []
                   | CLit _ => []
                   end).

(** * Cases *)
Record case := mkCase {
  c_tbl : hash_table;
  c_img : option (list Z);                  (* the BIOS image in the State (None: the State has none) *)
  c_start : Z;                              (* the TPM object of the boot: 0 NewTPM(); the object of earlier
                                               boots recycled with 1 Reset(), 2 DoNotUse_ResetNoInit(),
                                               3 DoNotUse_ResetNoInit() + SupportedAlgos restored *)
  c_pool : list Z;                          (* the converter objects made so far on this platform: their algorithms *)
  c_flow : list (list (sitem cref));        (* the measurements name their data source (Model/BootSimSrc.v);
                                               [d_conv = Some k]: converter object number k of [c_pool] *)
  c_pcrs : list (list (list Z));            (* TPM.PCRValues *)
  c_cmdlog : list cmd;                      (* TPM.CommandLog.Commands() *)
  c_causes : list (nat * nat);              (* per CommandLog entry: its cause, as (index of the executed step, index of
                                               the action among the actions of that step) *)
  c_evlog : list event;                     (* TPM.EventLog *)
  c_meas : list (Z * Z);                    (* per MeasuredData entry: len and digest of ConvertedBytes *)
  c_flags : list (list bool);               (* per executed step, per action: an issue was recorded *)
  c_loc : Z;                                (* locality handed to tpm.EventLog.Replay *)
  c_replay : list (obs (list Z));           (* tpmeventlog.Replay for (0,SHA1) (0,SHA256) (1,SHA1) (1,SHA256) *)
  c_tpmreplay : list (list Z);              (* tpm.EventLog.Replay(0, SHA1 | SHA256, c_loc) *)
  c_reexec : list (list (list Z));          (* PCRValues after Command.Apply of every logged command on NewTPM() *)
  c_apply : bool * list (list (list Z))     (* CommandLog.Commands().Apply on NewTPM(): returned nil?, PCRValues *)
}.

Definition opt_eqb {A} (eqb : A -> A -> bool) (a b : option A) : bool :=
  match a, b with
  | None, None => true
  | Some x, Some y => eqb x y
  | _, _ => false
  end.

Definition cmd_eqb (x y : cmd) : bool :=
  match x, y with
  | Startup l, Startup l' => l =? l'
  | Extend p a d, Extend p' a' d' => (p =? p') && (a =? a') && zlist_eqb d d'
  | LogAdd p a d ty data, LogAdd p' a' d' ty' data' =>
      (p =? p') && (a =? a') && zlist_eqb d d' && (ty =? ty') && opt_eqb zlist_eqb data data'
  | Reset, Reset => true
  | ResetNoInit, ResetNoInit => true
  | _, _ => false
  end.

Definition ev_eqb (x y : event) : bool :=
  match x, y with
  | EV p a d ty data, EV p' a' d' ty' data' =>
      (p =? p') && (a =? a') && zlist_eqb d d' && (ty =? ty') && opt_eqb zlist_eqb data data'
  end.

Definition pcrs_eqb : list (list (list Z)) -> list (list (list Z)) -> bool :=
  list_eqb (list_eqb zlist_eqb).

Fixpoint list_match {A B} (m : A -> B -> bool) (a : list A) (b : list B) : bool :=
  match a, b with
  | [], [] => true
  | x :: a', y :: b' => m x y && list_match m a' b'
  | _, _ => false
  end.

Definition is_issue (r : outcome unit) : bool := match r with Ok _ => false | _ => true end.

Definition pair_eqb (x y : Z * Z) : bool := (fst x =? fst y) && (snd x =? snd y).

Definition meas_obs (H : Z -> list Z -> list Z) (d : mdata cref) : Z * Z :=
  match converted cref cbytes H d with
  | Ok b => (Z.of_nat (length b), dlist 0 b)
  | _ => (-1, 0)
  end.

Definition reuse_of (k : Z) : reuse :=
  if k =? 1 then RReset else if k =? 2 then RResetNoInit else if k =? 3 then RResetNoInitAlgos else RNew.

(** The earlier boots of the object are not part of the case: the model claims
    that they do not matter ([recycle_start]), and the harness runs real earlier
    boots on the real object. *)
(** The converter objects start with an empty running state: whatever earlier
    conversions left in them does not matter ([oboot_is_boot] holds for every pool),
    and the harness runs real earlier conversions on the real objects. *)
Definition coord_eqb (x y : nat * nat) : bool := Nat.eqb (fst x) (fst y) && Nat.eqb (snd x) (snd y).

(** The data sources are resolved first (Model/BootSimSrc.v), the boot runs at the
    level of Model/BootSimObjs.v; the value-level run with causes and the ledger
    (Model/BootSimLedger.v: the specification of the command log, of the step issues
    and of the causes, computed from the items alone) are evaluated beside it. *)
Definition check (c : case) : bool :=
  let H := H_tbl (c_tbl c) in
  let fl := resolve_flow cref (cplat (c_img c)) (c_flow c) in
  let vfl := rflow cref (c_pool c) fl in
  let r0 := reuse_of (c_start c) in
  let tagged := snd (run_flow_tagged cref cbytes H (boot_start r0) 0 vfl) in
  let Ld := flow_ledger cref cbytes H (algos (start_of r0)) false vfl in
  let '(o, rss) := oboot cref cbytes H r0 (map (fun a => mkHasher a []) (c_pool c)) [] fl in
  let s := o_sim o in
  let t := s_tpm s in
  let log := to_parsed (evlog t) in
  let '(ta, ra) := commands_apply H fresh (cmdlog t) in
  pcrs_eqb (pcrs t) (c_pcrs c)
  && list_eqb cmd_eqb (cmdlog t) (c_cmdlog c)
  && list_eqb coord_eqb (map fst tagged) (c_causes c)
  && list_eqb cmd_eqb (map snd tagged) (c_cmdlog c)
  && list_eqb cmd_eqb (led_cmds Ld) (c_cmdlog c)
  && list_eqb coord_eqb (map fst (led_tagged 0 Ld)) (c_causes c)
  && list_eqb (list_eqb Bool.eqb) (led_issues Ld) (c_flags c)
  && list_eqb ev_eqb (evlog t) (c_evlog c)
  && list_eqb zlist_eqb (read_cdig o) (digests_of (c_cmdlog c))
  && list_eqb zlist_eqb (read_edig o) (map ev_digest (c_evlog c))
  && list_eqb pair_eqb (map (meas_obs H) (s_meas s)) (c_meas c)
  && list_eqb (list_eqb Bool.eqb) (map (map is_issue) rss) (c_flags c)
  && list_match (fun o m => obs_match zlist_eqb o m) (c_replay c)
       [EL.replay H log 0 ALG_SHA1; EL.replay H log 0 ALG_SHA256;
        EL.replay H log 1 ALG_SHA1; EL.replay H log 1 ALG_SHA256]
  && list_match (fun o m => obs_match zlist_eqb (OOk o) m) (c_tpmreplay c)
       [EL.tpm_replay H (to_entries (evlog t)) 0 ALG_SHA1 (c_loc c);
        EL.tpm_replay H (to_entries (evlog t)) 0 ALG_SHA256 (c_loc c)]
  && pcrs_eqb (pcrs (reexec H fresh (cmdlog t))) (c_reexec c)
  && Bool.eqb (negb (is_issue ra)) (fst (c_apply c))
  && pcrs_eqb (pcrs ta) (snd (c_apply c)).

Definition mismatches := mismatches_by check.
