(** Executable model of /repo/pkg/bootflow/bootengine/validator:
    ValidatorActorsAreProtected ([prevMeasured] is a deep copy taken before the
    current step's measurements are appended; an actor is reported only when a
    BYTE of its code is left after the subtraction),
    ValidatorFinalCoverageIsComplete (measured and file references are resolved
    before they are compared) and ValidatorNoIssues, over a projection of
    bootengine.Log.  The reference algebra (References.SortAndMerge / Exclude /
    Resolve, address mappers, fiano ranges) is imported from Model/Refs.v and
    Model/Ranges.v (C11).  No proofs here.

    Value-level model: Go slices are lists.  This is exact for one pass over the
    log as it reads when the pass starts: the only writes of the code to memory
    it does not own are in-place sorts of range arrays of the log
    (References.SortAndMerge re-allocates before it appends), and every range
    list is sorted again (stably) wherever it is used.  The slice-level model
    Model/ValidatorsHeap.v says what a pass does to the memory behind the log; the
    correspondence check runs both on every case. *)
From CSS Require Import Lib.Base Model.Ranges Model.Refs.

(** ** The log as the validators see it *)

(** One bootengine.StepResult.
    [s_actor]: identity class (Go interface [==]) of StepResult.Actor, [None] = nil
    interface.  This is the actor in charge AFTER the step's actions ran.
    [s_code]: StepResult.ActorCode ([None] = nil pointer), its References.
    [s_meas]: StepResult.MeasuredData.References() (all references of all
    MeasuredData entries of the step, in order).
    [s_issues]: identities of StepResult.Issues, in order. *)
Record step := mkStep {
  s_actor : option Z;
  s_code : option (list ref);
  s_meas : list ref;
  s_issues : list Z
}.

(** One validator.Issue.  [vi_kind]:
    1 "unable to resolve the measured references" (actors validator),
    2 "unable to resolve the actor references",
    3 "unable to resolve references" (the non-measured ones),
    4 actor code not protected: [vi_refs] = nonMeasured, [vi_meas] = measured
      as printed in the message,
    5 "unable to get UEFI files" (final coverage),
    6 ErrNotFullCoverage: [vi_refs] = NonMeasured, [vi_meas] = Measured. *)
Record vissue := mkVI { vi_step : Z; vi_kind : Z; vi_refs : list ref; vi_meas : list ref }.

(** ** References.SortAndMerge / Exclude with the order insertion sort gives *)

(** sort.Slice runs insertion sort on slices of at most 12 elements, which is
    stable, and performs no swap at all when [less] is constantly false (one
    artifact type only), whatever the length; [sort_refs] is that order.  The
    [sorted_cmp] test can only fail for ill-formed artifact records (same
    identity, different type names): [Err 1] then makes the correspondence check
    report a mismatch instead of guessing. *)
Definition sm (s : list ref) : outcome (list ref) :=
  match s with
  | [] => Ok []
  | _ =>
      if has_conflict s then Panic
      else
        let s' := sort_refs s in
        if sorted_cmp s' then Ok (refs_sm_sorted s') else Err 1
  end.

Definition exclude (s exc : list ref) : outcome (list ref) :=
  match s with
  | [] => Ok []
  | _ => bind (sm s) (fun s0 => bind (sm exc) (fun s1 => excl_walk s0 s1))
  end.

Definition opt_eqb (a b : option Z) : bool :=
  match a, b with
  | None, None => true
  | Some x, Some y => x =? y
  | _, _ => false
  end.

(** [References.Resolve]: the list afterwards / whether an error was returned *)
Definition resolved (s : list ref) : list ref := fst (refs_resolve s).
Definition resolve_fails (s : list ref) : bool := snd (refs_resolve s).

(** some range of [nonMeasured.Ranges()] has a non-zero length *)
Definition has_bytes (s : list ref) : bool := existsb (fun r => existsb nonzero (rranges r)) s.

(** ** ValidatorActorsAreProtected.Validate *)

(** What the step contributes once its measurements are merged in:
    [prev] = prevMeasured (deep copy: the value before this step),
    [cur] = measured after append + SortAndMerge (only printed in the message).
    Returns the issues of the step and the new prevActor. *)
Definition vap_actor (idx : Z) (prev cur : list ref) (pa : option Z) (st : step)
  : outcome (list vissue * option Z) :=
  match s_actor st with
  | None => Ok ([], pa)                                   (* step.Actor == nil *)
  | Some a =>
      if opt_eqb (Some a) pa then Ok ([], pa)             (* step.Actor == prevActor *)
      else
        match s_code st with
        | None => Ok ([], Some a)                         (* step.ActorCode == nil *)
        | Some code =>
            (* actorRefs := step.ActorCode.References.Exclude()  -- "a copy": sorted and merged *)
            bind (exclude code []) (fun arefs0 =>
            let pa0 := refs_resolve arefs0 in      (* actorRefs.Resolve(), evaluated once *)
            let i2 := if snd pa0 then [mkVI idx 2 [] []] else [] in
            bind (exclude (fst pa0) prev) (fun nm =>
            if has_bytes nm then
                let pn := refs_resolve nm in       (* nonMeasured.Resolve() *)
                let i3 := if snd pn then [mkVI idx 3 [] []] else [] in
                Ok (i2 ++ i3 ++ [mkVI idx 4 (fst pn) cur], Some a)
            else Ok (i2, Some a)))
        end
  end.

Fixpoint vap_go (idx : Z) (measured : list ref) (pa : option Z) (l : list step)
  : outcome (list vissue) :=
  match l with
  | [] => Ok []
  | st :: t =>
      let pm := refs_resolve (s_meas st) in        (* newMeasuredRefs.Resolve(), evaluated once *)
      let i1 := if snd pm then [mkVI idx 1 [] []] else [] in
      bind (sm (measured ++ fst pm)) (fun cur =>
      bind (vap_actor idx measured cur pa st) (fun '(iss, pa') =>
      bind (vap_go (idx + 1) cur pa' t) (fun rest =>
      Ok (i1 ++ iss ++ rest))))
  end.

Definition vap (l : list step) : outcome (list vissue) := vap_go 0 [] None l.

(** ** ValidatorFinalCoverageIsComplete.Validate *)

(** the accumulation loop: resolve the step's references (an error is ignored:
    what could not be resolved stays as it is), append, SortAndMerge *)
Fixpoint vfc_measured (measured : list ref) (l : list step) : outcome (list ref) :=
  match l with
  | [] => Ok measured
  | st :: t => bind (sm (measured ++ resolved (s_meas st))) (fun m => vfc_measured m t)
  end.

(** [files]: what datasources.UEFIFiles(PE32|PIC|TE).Data returned:
    [Ok refs] (Data.References) or an error.  The file references are resolved
    (in place, errors ignored) before [Exclude(measured...)].  [measured] reads
    the same afterwards: every reference of it went through SortAndMerge, so the
    arrays Exclude sorts once more are sorted already. *)
Definition vfc (files : outcome (list ref)) (l : list step) : outcome (list vissue) :=
  match l with
  | [] => Ok []
  | _ =>
      let last := zlen l - 1 in
      bind (vfc_measured [] l) (fun measured =>
      match files with
      | Ok frefs =>
          bind (exclude (resolved frefs) measured) (fun nm =>
          match nm with
          | [] => Ok []
          | _ => Ok [mkVI last 6 (resolved nm) (resolved measured)]
          end)
      | _ => Ok [mkVI last 5 [] []]
      end)
  end.

(** ** ValidatorNoIssues.Validate: (step index, issue identity) in log order *)
Fixpoint vni_go (idx : Z) (l : list step) : list (Z * Z) :=
  match l with
  | [] => []
  | st :: t => map (fun i => (idx, i)) (s_issues st) ++ vni_go (idx + 1) t
  end.
Definition vni (l : list step) : list (Z * Z) := vni_go 0 l.

(** ** validator.Validators.Validate over validator.All(): the three validators
    one after the other, results appended in that order *)
Definition chain (a b : list vissue) (n : list (Z * Z)) : list (vissue + Z * Z) :=
  map inl a ++ map inl b ++ map inr n.
Definition vall (files : outcome (list ref)) (l : list step) : outcome (list (vissue + Z * Z)) :=
  bind (vap l) (fun a => bind (vfc files l) (fun b => Ok (chain a b (vni l)))).

(** ** pcr0tool validate_security, before it runs the validators:
    [measuredRefs := state.MeasuredData.References(); measuredRefs.SortAndMerge()]
    (what it prints as "Measured/protected data") *)
Definition sm_all (l : list step) : outcome (list ref) := sm (flat_map s_meas l).

(** ** MeasuredDataSlice.References(): the references of all entries, in order *)
Definition mds_refs {A} (ds : list (list A)) : list A := concat ds.

(** ** datasources.UEFIFiles(filter).Data with the filter of
    ValidatorFinalCoverageIsComplete *)

(** a *uefi.File node of the parsed image as ffs.NodeVisitor hands it to the
    callback: node.Range (image offsets; Offset = MaxUint64 when the offset could
    not be determined) and the types of the file's sections, in order *)
Record fnode := mkFN { fn_off : Z; fn_len : Z; fn_secs : list Z }.

Definition SEC_PE32 : Z := 16.   (* uefi.SectionTypePE32 *)
Definition SEC_PIC : Z := 17.    (* uefi.SectionTypePIC *)
Definition SEC_TE : Z := 18.     (* uefi.SectionTypeTE *)
Definition MAXU64 : Z := 18446744073709551615.

(** the filter: some section of the file is PE32, PIC or TE *)
Definition is_exec_sec (t : Z) : bool := (t =? SEC_PE32) || (t =? SEC_PIC) || (t =? SEC_TE).
Definition file_matches (n : fnode) : bool := existsb is_exec_sec (fn_secs n).

(** PhysMemMapper.UnresolveFullImageOffset on one range (uint64 arithmetic) *)
Definition unresolve_full (size : Z) (r : range) : range :=
  mkR (wrap64 (wrap64 (roff r + W32) - size)) (rlen r).

(** [nodes]: every file node of the image in visiting order.  [Err 3]: a matching
    file without an offset (multierror); an image that cannot be fetched or parsed
    is an error before this function is reached.  The ranges are sorted and merged
    ([ranges.SortAndMerge()]); no range at all: [&types.Data{}], no reference. *)
Definition uefi_files (img : art) (nodes : list fnode) : outcome (list ref) :=
  let found := filter file_matches nodes in
  if existsb (fun n => fn_off n =? MAXU64) found then Err 3
  else
    let size := zlen (acontent img) in
    match ranges_sm (map (fun n => unresolve_full size (mkR (fn_off n) (fn_len n))) found) with
    | [] => Ok []
    | rs => Ok [mkRef img MPhys rs]
    end.
