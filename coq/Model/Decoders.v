(** C15 — executable models of the repo-owned decoders of untrusted platform data.

    Part 1 ("Reader"): a small reader monad over byte strings with an explicit
    allocation counter and step counter, and explicit [RPanic] / [RFuel]
    results.  Primitives mirror [bytes.Reader] + [encoding/binary.Read]
    ([io.ReadFull] semantics: nothing available -> io.EOF, fewer bytes than
    asked -> io.ErrUnexpectedEOF and the reader is exhausted), [Seek],
    slicing [data[off:]] (panics when off > len), [make([]T, n)] (panics when
    n < 0).

    Part 2: one reader program per decoder, faithful to the Go control flow
    including the panic sites and the length-prefixed allocations:
      pkg/tools/lcp.go   ParsePolicy, ParsePolicyData
      pkg/tools/acm.go   LookupACMSize, ACM.ParseACMInfo (the width of the
                         products in its allocation guards is a parameter:
                         [acm_info] = [acm_info_w 64])
      pkg/tools/txt.go   ParseTXTRegs, ParseBIOSDataRegion, ReadACMStatus,
                         ReadACMPolicyStatusRaw, ReadBootStatusRaw
      pkg/registers      Read* (16 functions), ReadTXTRegisters, ValueFromBytes,
                         registersForSerializationOBSOLETE.ParseRegisters
      pkg/tpm            parseSysfsPCRs (incl. the fmt.Sscanf call, byte level)
      pkg/tpmdetection   local (capability file part)
      pkg/check          BytesRange
      pkg/provisioning/bootguard DecryptPrivKey (framing only)
    ParseLocality / ParseEventData are modelled in Model/EventLog.v (C12) and
    re-used by DecodersCases.v.

    The repairs of the findings of this property (commits a533fa8, 84f1c2a,
    f913973, 4423a4c, 6dfa3ec, 3c5bd57, 9c860bb) are switchable ([fixes]):
    [faithful] is the code as it is (all checks present), [legacy] the code
    before the repairs (what the theorems used to refute).  No proofs here. *)
From CSS Require Import Lib.Base.

(** * Part 1 — the reader monad *)

Definition E_EOF   : Z := 1.  (* io.EOF *)
Definition E_UEOF  : Z := 2.  (* io.ErrUnexpectedEOF *)
Definition E_OTHER : Z := 3.  (* any error value built by the decoder itself *)
Definition E_FIX   : Z := 4.  (* rejected by a length/size check added by the repairs (never produced by [legacy]) *)

Record st : Type := mkSt { s_rest : list Z; s_alloc : Z; s_steps : Z }.

Inductive res (A : Type) : Type :=
| ROk (a : A) (s : st)
| RErr (c : Z) (s : st)
| RPanic
| RFuel.
Arguments ROk {A} a s.
Arguments RErr {A} c s.
Arguments RPanic {A}.
Arguments RFuel {A}.

Definition rd (A : Type) : Type := st -> res A.

Definition set_rest (s : st) (r : list Z) : st := mkSt r (s_alloc s) (s_steps s).
Definition add_alloc (s : st) (n : Z) : st := mkSt (s_rest s) (s_alloc s + n) (s_steps s).
Definition tick (s : st) : st := mkSt (s_rest s) (s_alloc s) (s_steps s + 1).

Definition ret {A} (a : A) : rd A := fun s => ROk a s.
Definition fail {A} (c : Z) : rd A := fun s => RErr c s.
Definition panic {A} : rd A := fun _ => RPanic.
Definition bind {A B} (r : rd A) (f : A -> rd B) : rd B := fun s =>
  match r s with
  | ROk a s' => f a s'
  | RErr c s' => RErr c s'
  | RPanic => RPanic
  | RFuel => RFuel
  end.
Notation "x <- r ;; k" := (bind r (fun x => k)) (at level 61, r at next level, right associativity).
Notation "r ;;; k" := (bind r (fun _ => k)) (at level 61, right associativity).

(** [or_else r h]: when [r] returns an error, continue with [h] *from the state
    [r] stopped in* (ParsePolicyData retries with parsePolicyList2 on the same
    bytes.Reader, which is not rewound). *)
Definition or_else {A} (r h : rd A) : rd A := fun s =>
  match r s with
  | RErr _ s' => h s'
  | x => x
  end.

(** [err = r(); if err != nil && err != io.EOF { return err }]: io.EOF is
    swallowed and [dflt] stands for the untouched destination *)
Definition catch_eof {A} (r : rd A) (dflt : A) : rd A := fun s =>
  match r s with
  | RErr c s' => if c =? E_EOF then ROk dflt s' else RErr c s'
  | x => x
  end.

(** [take l n]: the first [n] elements and the remainder, [None] when [l] is
    shorter; structural in [l] so that 32-bit [n] never becomes a [nat]. *)
Fixpoint takeZ (l : list Z) (n : Z) {struct l} : option (list Z * list Z) :=
  if n <=? 0 then Some ([], l) else
  match l with
  | [] => None
  | x :: t => match takeZ t (n - 1) with
              | Some (a, r) => Some (x :: a, r)
              | None => None
              end
  end.

Fixpoint dropZ (l : list Z) (n : Z) {struct l} : list Z :=
  if n <=? 0 then l else
  match l with
  | [] => []
  | _ :: t => dropZ t (n - 1)
  end.

Fixpoint has_len (l : list Z) (n : Z) {struct l} : bool :=
  if n <=? 0 then true else
  match l with
  | [] => false
  | _ :: t => has_len t (n - 1)
  end.

Definition lenZ (l : list Z) : Z := Z.of_nat (length l).

(** [binary.Read] of a fixed [n]-byte object from the bytes.Reader. *)
Definition read_n (n : Z) : rd (list Z) := fun s =>
  if n <=? 0 then ROk [] s else
  let s1 := tick s in
  match s_rest s with
  | [] => RErr E_EOF s1
  | _ => match takeZ (s_rest s) n with
         | Some (a, r) => ROk a (set_rest s1 r)
         | None => RErr E_UEOF (set_rest s1 [])
         end
  end.

(** values of byte strings; every element is reduced mod 256 so that the
    value of [n] bytes is in [0, 256^n) for every list of integers *)
Definition le_val (l : list Z) : Z := fold_right (fun x acc => x mod 256 + 256 * acc) 0 l.
Definition be_val (l : list Z) : Z := fold_left (fun acc x => acc * 256 + x mod 256) l 0.

Definition read_le (n : Z) : rd Z := b <- read_n n ;; ret (le_val b).
Definition read_be (n : Z) : rd Z := b <- read_n n ;; ret (be_val b).

(** [make([]T, n)] with [n] an unsigned count read from the input (never
    negative in Go): [elem] bytes per element. *)
Definition alloc (n elem : Z) : rd unit := fun s => ROk tt (add_alloc s (Z.max 0 n * elem)).
(** [make([]T, n)] with a signed, computed [n]: "makeslice: len out of range"
    when negative. *)
Definition alloc_chk (n elem : Z) : rd unit := fun s =>
  if n <? 0 then RPanic else ROk tt (add_alloc s (n * elem)).

(** [binary.Read(buf, order, &slice)] where the slice occupies [n] bytes:
    n = 0 succeeds without touching the reader, otherwise a scratch buffer of
    [n] bytes is allocated and filled with io.ReadFull. *)
Definition read_slice (n : Z) : rd (list Z) :=
  if n <=? 0 then ret [] else (alloc n 1 ;;; read_n n).

(** [buf.Seek(off, io.SeekStart)] on a reader over [whole] (off >= 0 always
    here; seeking past the end is allowed, the next read returns io.EOF) *)
Definition seek (whole : list Z) (off : Z) : rd unit := fun s => ROk tt (set_rest s (dropZ whole off)).
(** [bytes.NewReader(data[off:])]: slicing panics when off > len(data) *)
Definition slice_from (whole : list Z) (off : Z) : rd unit := fun s =>
  if has_len whole off then ROk tt (set_rest s (dropZ whole off)) else RPanic.

(** [for cont(x) { x = body(x) }] with loop state [x]; [fuel] bounds the number
    of iterations.  Every loop of the decoders consumes at least one byte per
    successful iteration, so |rest|+1 iterations suffice (Proofs: [RFuel] never
    happens). *)
Fixpoint loopS {X : Type} (fuel : nat) (cont : X -> bool) (body : X -> rd X) (x : X) : rd X := fun s =>
  if cont x then
    match fuel with
    | O => RFuel
    | S f =>
        match body x s with
        | ROk x' s' => loopS f cont body x' s'
        | RErr c s' => RErr c s'
        | RPanic => RPanic
        | RFuel => RFuel
        end
    end
  else ROk x s.
Definition loop {X : Type} (cont : X -> bool) (body : X -> rd X) (x : X) : rd X :=
  fun s => loopS (S (length (s_rest s))) cont body x s.

(** [for i := 0; i < n; i++ { body }], flat list of what the bodies return
    (loop state: iterations left, reversed accumulator) *)
Definition repeat_n (n : Z) (body : rd (list Z)) : rd (list Z) :=
  x <- loop (fun st : Z * list Z => 0 <? fst st)
            (fun st => a <- body ;; ret (fst st - 1, rev_append a (snd st)))
            (n, []) ;;
  ret (rev (snd x)).

Definition run {A} (r : rd A) (input : list Z) : res A := r (mkSt input 0 0).

Definition res_alloc {A} (r : res A) : Z :=
  match r with ROk _ s | RErr _ s => s_alloc s | _ => 0 end.
Definition res_steps {A} (r : res A) : Z :=
  match r with ROk _ s | RErr _ s => s_steps s | _ => 0 end.
Definition outcome_of {A} (r : res A) : outcome A :=
  match r with ROk a _ => Ok a | RErr c _ => Err c | RPanic => Panic | RFuel => OutOfFuel end.

Definition bit (w k : Z) : Z := if Z.testbit w k then 1 else 0.
Definition bits (w lo n : Z) : Z := Z.land (Z.shiftr w lo) (Z.ones n).

(** * Part 2 — the decoders *)

(** switches for the repairs of the findings *)
Record fixes : Type := mkFx {
  fx_custom_min : bool;  (* 6dfa3ec: parsePolicyElementCustom rejects Size < 32 *)
  fx_cap : bool;         (* 3c5bd57, 9c860bb: a count/size that exceeds the bytes left in the reader is rejected before make() *)
  fx_bounds : bool       (* a533fa8, 84f1c2a, f913973, 4423a4c: offsets / lengths are checked before slicing *)
}.
(** the code as it is *)
Definition faithful : fixes := mkFx true true true.
(** the code before the repairs *)
Definition legacy : fixes := mkFx false false false.

(** [bytes.NewReader(data[off:])] behind a bounds check: pkg/registers slices
    through [TXTConfigSpace.from] (empty when off > len), pkg/tools seeks; an
    image that ends before [off] gives an exhausted reader (the read returns
    io.EOF).  Before the repairs the bare slice expression panicked. *)
Definition slice_at (fx : fixes) (whole : list Z) (off : Z) : rd unit :=
  if fx_bounds fx then seek whole off else slice_from whole off.

(** [if n > buf.Len() { return error }] (absent before the repairs) *)
Definition cap_guard (fx : fixes) (n : Z) : rd unit := fun s =>
  if fx_cap fx && negb (has_len (s_rest s) n) then RErr E_FIX s else ROk tt s.

(** ** pkg/tools/lcp.go *)

Definition LCPPolicyVersion2 : Z := 516.
Definition LCPPolicyVersion3 : Z := 768.
(** element types, signature algorithms, hash algorithm of pkg/tools/lcp.go (constants tie) *)
Definition LCPPolicyElementMLE : Z := 0.
Definition LCPPolicyElementPCONF : Z := 1.
Definition LCPPolicyElementSBIOS : Z := 2.
Definition LCPPolicyElementCustom : Z := 3.
Definition LCPSignatureAlgNone : Z := 0.
Definition LCPSignatureAlgRSAPKCS15 : Z := 1.
Definition LCPPolHAlgSHA1 : Z := 0.

(** tpm2.Algorithm.Hash(): digest size, [None] when not a hash or not linked in *)
Definition alg_hash_size (sha3 : bool) (alg : Z) : option Z :=
  if alg =? 4 then Some 20 else if alg =? 11 then Some 32 else if alg =? 12 then Some 48
  else if alg =? 13 then Some 64
  else if alg =? 39 then (if sha3 then Some 32 else None)
  else if alg =? 40 then (if sha3 then Some 48 else None)
  else if alg =? 41 then (if sha3 then Some 64 else None)
  else None.

Definition fix_len32 (l : list Z) : list Z := firstn 32 (l ++ repeat 0 32).

Fixpoint le16s (l : list Z) : list Z :=
  match l with a :: b :: t => le_val [a; b] :: le16s t | _ => [] end.

Definition parse_policy1 : rd (list Z) :=
  ver <- read_le 2 ;; ha <- read_le 1 ;; pt <- read_le 1 ;; sm <- read_le 1 ;; rs <- read_le 1 ;;
  drc <- read_n 16 ;; pc <- read_le 4 ;; ms <- read_le 1 ;; r1 <- read_le 1 ;; r2 <- read_le 2 ;;
  r3 <- read_le 4 ;; h <- read_n 20 ;;
  ret ([1; ver; ha; pt; sm; rs] ++ le16s drc ++ [pc; ms; r1; r2; r3] ++ h).

Definition parse_policy2 (sha3 : bool) : rd (list Z) :=
  ver <- read_le 2 ;; alg <- read_le 2 ;; pt <- read_le 1 ;; sm <- read_le 1 ;;
  drc <- read_n 16 ;; pc <- read_le 4 ;; ms <- read_le 1 ;; rs <- read_le 1 ;; hm <- read_le 2 ;;
  sg <- read_le 4 ;; r2 <- read_le 4 ;;
  match alg_hash_size sha3 alg with
  | None => fail E_OTHER
  | Some sz =>
      (* hash := make([]byte, sz); err = binary.Read(buf, .., &hash); io.EOF is tolerated *)
      h <- catch_eof (read_n sz) (repeat 0 (Z.to_nat sz)) ;;
      ret ([2; ver; alg; pt; sm] ++ le16s drc ++ [pc; ms; rs; hm; sg; r2] ++ fix_len32 h)
  end.

(** ParsePolicy: the version is read with a reader of its own, then the whole
    input is parsed again from the start *)
Definition parse_policy (sha3 : bool) (input : list Z) : rd (list Z) :=
  ver <- read_le 2 ;;
  if ver <=? LCPPolicyVersion2 then (seek input 0 ;;; parse_policy1)
  else if ver >=? LCPPolicyVersion3 then (seek input 0 ;;; parse_policy2 sha3)
  else fail E_OTHER.

(** parseLCPHash(buf, hash, alg): only LCPPolHAlgSHA1 = 0 *)
Definition lcp_hash (alg : Z) : rd (list Z) :=
  if alg =? LCPPolHAlgSHA1 then read_n 20 else fail E_OTHER.

Definition elt_mle : rd (list Z) :=
  sm <- read_le 1 ;; ha <- read_le 1 ;; n <- read_le 2 ;;
  alloc n 20 ;;;
  hs <- repeat_n n (read_n 20) ;;
  ret ([sm; ha; n] ++ hs).

Definition elt_sbios : rd (list Z) :=
  ha <- read_le 1 ;; _r1 <- read_n 3 ;; fb <- lcp_hash ha ;; _r2 <- read_le 2 ;; n <- read_le 2 ;;
  alloc n 40 ;;;
  hs <- repeat_n n (lcp_hash ha) ;;
  ret ([ha; n] ++ fb ++ hs).

(** the PCR numbers selected by one TPM_PCR_SELECTION byte *)
Definition pcr_bits (i b : Z) : list Z :=
  flat_map (fun j => if Z.testbit b j then [i * 8 + j] else []) [0; 1; 2; 3; 4; 5; 6; 7].

(** [for i := 0; i < int(selSize); i++ { read a byte; append the set bits }] *)
Definition sel_loop (n : Z) : rd (list Z) :=
  x <- loop (fun st : Z * list Z => fst st <? n)
            (fun st => b <- read_be 1 ;; ret (fst st + 1, rev_append (pcr_bits (fst st) b) (snd st)))
            (0, []) ;;
  ret (rev (snd x)).

Definition pcr_info : rd (list Z) :=
  ss <- read_be 2 ;;
  sel <- sel_loop ss ;;
  loc <- read_be 1 ;; dg <- read_n 20 ;;
  ret ([loc; lenZ sel] ++ sel ++ dg).

Definition elt_pconf : rd (list Z) :=
  n <- read_le 2 ;;
  alloc n 48 ;;;
  is <- repeat_n n pcr_info ;;
  ret (n :: is).

(** parsePolicyElementCustom(buf, int(Size)-16, pol): [if size < 16 { error }]
    (6dfa3ec), [if size-16 > buf.Len() { error }] (3c5bd57), make([]byte, size-16) *)
Definition elt_custom (fx : fixes) (size : Z) : rd (list Z) :=
  d1 <- read_le 4 ;; d2 <- read_le 2 ;; d3 <- read_le 2 ;; d4 <- read_le 2 ;; d5 <- read_n 6 ;;
  let n := size - 16 - 16 in
  if fx_custom_min fx && (n <? 0) then fail E_FIX else
  (cap_guard fx n ;;;
   alloc_chk n 1 ;;;
   dt <- read_slice n ;;
   ret ([d1; d2; d3; d4] ++ d5 ++ [lenZ dt] ++ dt)).

(** parsePolicyElement: returns (Size, summary) *)
Definition element (fx : fixes) : rd (Z * list Z) :=
  size <- read_le 4 ;; ty <- read_le 4 ;; ctl <- read_le 4 ;;
  body <- (if ty =? LCPPolicyElementMLE then elt_mle
           else if ty =? LCPPolicyElementSBIOS then elt_sbios
           else if ty =? LCPPolicyElementPCONF then elt_pconf
           else if ty =? LCPPolicyElementCustom then elt_custom fx size
           else fail E_OTHER) ;;
  ret (size, [size; ty; ctl] ++ body).

Definition lcp_signature : rd (list Z) :=
  rc <- read_le 2 ;; ks <- read_le 2 ;;
  alloc ks 1 ;;; pk <- read_slice ks ;;
  alloc ks 1 ;;; sg <- read_slice ks ;;
  ret ([rc; ks] ++ pk ++ sg).

(** [for i := 0; i < int(PolicyElementSize); { parse; append; i += int(elt.Size) }]
    (loop state: i, number of elements, reversed summaries) *)
Definition list1_loop (fx : fixes) (esz : Z) : rd (Z * list Z) :=
  x <- loop (fun st : Z * Z * list Z => fst (fst st) <? esz)
            (fun st => e <- element fx ;;
                       ret (fst (fst st) + fst e, snd (fst st) + 1, rev_append (snd e) (snd st)))
            (0, 0, []) ;;
  ret (snd (fst x), rev (snd x)).

Definition policy_list1 (fx : fixes) : rd (list Z) :=
  ver <- read_le 2 ;; rs <- read_le 1 ;; sa <- read_le 1 ;; esz <- read_le 4 ;;
  ce <- list1_loop fx esz ;;
  sg <- (if sa =? LCPSignatureAlgNone then ret [0]
         else if sa =? LCPSignatureAlgRSAPKCS15 then (x <- lcp_signature ;; ret (1 :: x))
         else fail E_OTHER) ;;
  ret ([1; ver; rs; sa; esz; fst ce] ++ snd ce ++ sg).

Definition policy_list2 (fx : fixes) : rd (list Z) :=
  ver <- read_le 2 ;; sa <- read_le 2 ;; cnt <- read_le 4 ;;
  cap_guard fx cnt ;;;
  alloc cnt 48 ;;;
  es <- repeat_n cnt (x <- element fx ;; ret (snd x)) ;;
  ret ([2; ver; sa; cnt] ++ es).

Definition policy_data (fx : fixes) : rd (list Z) :=
  sg <- read_n 32 ;; rs <- read_n 3 ;; n <- read_le 1 ;;
  alloc n 72 ;;;
  ls <- repeat_n n (or_else (policy_list1 fx) (policy_list2 fx)) ;;
  ret (sg ++ rs ++ [n] ++ ls).

(** ** pkg/tools/acm.go *)

(** LookupACMSize(header): [if len(header) < 32 { error }] (f913973; before it
    header[:32] panicked, the harness passes cap = len), Seek(24), uint32,
    [int64(acmSize * 4)] computed in uint32 *)
Definition ACMSizeOffset : Z := 24.
Definition lookup_acm_size (fx : fixes) (header : list Z) : rd (list Z) :=
  if has_len header 32 then
    seek (firstn 32 header) ACMSizeOffset ;;; v <- read_le 4 ;; ret [wrap32 (v * 4)]
  else if fx_bounds fx then fail E_FIX else panic.

(** [uintW(a) * uintW(b)]: the product as the machine computes it in [w]-bit
    unsigned arithmetic.  The guards in front of the two [make] calls of
    ParseACMInfo are written [uint64(Count)*uint64(binary.Size(T{})) >
    uint64(buf.Len())]: the width of the product is part of the model, because
    the guard bounds the allocation only when the product cannot wrap (a 32-bit
    count times a 16- or 24-byte entry needs 37 bits). *)
Definition mul_w (w a b : Z) : Z := (a * b) mod 2 ^ w.

(** ACM.ParseACMInfo: [user] = Header.UserArea (the reader starts there),
    [total] = the Size*4 bytes Header.Write produced; the two ID lists are
    checked against the bytes left in the module before make() (9c860bb).
    [pw] = width in bits of the products [Count * entry size] inside the two
    guards: 64 in the code ([acm_info]).  [make] and binary.Read compute their
    own sizes in Go's [int] (64 bits), never below the 37 bits the product needs. *)
Definition acm_info_w (pw : Z) (fx : fixes) (total : list Z) : rd (list Z) :=
  info <- read_n 48 ;;
  let cs := le_val (firstn 4 (skipn 20 info)) in
  let ps := le_val (firstn 4 (skipn 40 info)) in
  let ts := le_val (firstn 4 (skipn 44 info)) in
  alloc (lenZ total) 1 ;;;
  seek total cs ;;; c1 <- read_le 4 ;;
  cap_guard fx (mul_w pw c1 16) ;;; alloc c1 16 ;;; l1 <- read_slice (c1 * 16) ;;
  seek total ps ;;; c2 <- read_le 4 ;;
  cap_guard fx (mul_w pw c2 24) ;;; alloc c2 24 ;;; l2 <- read_slice (c2 * 24) ;;
  seek total ts ;;; caps <- read_le 4 ;; c3 <- read_le 2 ;;
  alloc c3 2 ;;; l3 <- read_slice (c3 * 2) ;;
  ret ([cs; ps; ts; c1] ++ l1 ++ [c2] ++ l2 ++ [caps; c3] ++ l3).

(** the code as it is: uint64 products *)
Definition acm_info : fixes -> list Z -> rd (list Z) := acm_info_w 64.

(** ** pkg/tools/txt.go *)

Definition txt_status_fields (u : Z) : list Z :=
  [bit u 0; bit u 1; bit u 6; bit u 7; bit u 15; bit u 16].
Definition txt_errorcode_fields (u : Z) : list Z :=
  [bits u 0 4; bits u 4 6; bits u 10 5; bit u 15; bits u 16 12; bits u 28 2; bit u 30; bit u 31].

(** register offsets inside the TXT public space (the unexported constants of
    pkg/tools/txt.go; re-read from the source by the constants tie) *)
Definition txtSts : Z := 0.
Definition txtEsts : Z := 8.
Definition txtErrorCode : Z := 48.
Definition txtBootStatus : Z := 160.
Definition txtVerFSBIF : Z := 256.
Definition txtDIDVID : Z := 272.
Definition txtVerQPIFF : Z := 512.
Definition txtsInitBase : Z := 624.
Definition txtsInitSize : Z := 632.
Definition txtMLEJoin : Z := 656.
Definition txtHeapBase : Z := 768.
Definition txtHeapSize : Z := 776.
Definition txtACMStatus : Z := 808.
Definition txtDMAProtectedRange : Z := 816.
Definition txtACMPolicyStatus : Z := 888.
Definition txtPublicKey : Z := 1024.
Definition txtE2STS : Z := 2288.

Definition parse_txt_regs (fx : fixes) (data : list Z) : rd (list Z) :=
  sts <- read_le 8 ;;                                   (* readTXTStatus: NewReader(data) *)
  slice_at fx data txtErrorCode ;;; ec <- read_le 4 ;;  (* readTXTErrorCode: Seek(0x30) (84f1c2a; was data[0x30:]) *)
  slice_at fx data txtDMAProtectedRange ;;; dpr <- read_le 4 ;; (* readDMAProtectedRange: Seek(0x330) (was data[0x330:]) *)
  seek data txtEsts ;;; rst <- read_le 1 ;;             (* TxtReset = bit 0 of TXT.ESTS (fix 28e1a56) *)
  seek data txtBootStatus ;;; bs <- read_le 8 ;;
  seek data txtVerFSBIF ;;; fsb <- read_le 4 ;;
  seek data txtDIDVID ;;; vid <- read_le 2 ;; did <- read_le 2 ;; rid <- read_le 2 ;; ext <- read_le 2 ;;
  seek data txtVerQPIFF ;;; qpi <- read_le 4 ;;
  seek data txtsInitBase ;;; sb <- read_le 4 ;;
  seek data txtsInitSize ;;; ssz <- read_le 4 ;;
  seek data txtMLEJoin ;;; mj <- read_le 4 ;;
  seek data txtHeapBase ;;; hb <- read_le 4 ;;
  seek data txtHeapSize ;;; hs <- read_le 4 ;;
  seek data txtPublicKey ;;; k0 <- read_le 8 ;;
  seek data (txtPublicKey + 8) ;;; k1 <- read_le 8 ;;
  seek data (txtPublicKey + 16) ;;; k2 <- read_le 8 ;;
  seek data (txtPublicKey + 24) ;;; k3 <- read_le 8 ;;
  seek data txtE2STS ;;; e2 <- read_le 8 ;;
  ret (txt_status_fields sts ++ [bit rst 0] ++ txt_errorcode_fields ec ++
       [ec; bs; fsb; vid; did; rid; ext; qpi; sb; ssz; mj; hb; hs;
        bit dpr 0; bits dpr 4 8; bits dpr 20 12; k0; k1; k2; k3; e2]).

Definition parse_bios_data : rd (list Z) :=
  _sz <- read_le 8 ;; ver <- read_le 4 ;; ssz <- read_le 4 ;; r1 <- read_le 8 ;; r2 <- read_le 8 ;;
  nl <- read_le 4 ;;
  sf <- (if (3 <=? ver) && (ver <? 5) then read_le 4 else ret 0) ;;
  mf <- (if 5 <=? ver then (m <- read_le 4 ;;
                            ret [1; bit m 0; 0; (if Z.land m 6 =? 4 then 1 else 0); (if Z.land m 6 =? 2 then 1 else 0)])
         else ret [0; 0; 0; 0; 0]) ;;
  ret ([ver; ssz; r1; r2; nl; sf] ++ mf).

(** ReadACMStatus: Seek(0x328) (84f1c2a; was data[0x328:]) *)
Definition read_acm_status (fx : fixes) (data : list Z) : rd (list Z) :=
  slice_at fx data txtACMStatus ;;; u <- read_le 8 ;;
  ret [bit u 31; bits u 16 12; bit u 15; bits u 10 5; bits u 4 6; bits u 0 4].

Definition read_raw64_at (data : list Z) (off : Z) : rd (list Z) :=
  seek data off ;;; u <- read_le 8 ;; ret [u].

(** ** pkg/registers: Read* and ReadTXTRegisters *)

(** (offset, width in bytes, slices [data.from(off)] -- before a533fa8
    [data[off:]] -- (true) or seeks (false)), in the order of
    [supportedTXTRegistersIDs] *)
Definition txt_reg_table : list (Z * Z * bool) :=
  [ (888, 8, false)   (* ACM_POLICY_STATUS: Seek *)
  ; (808, 4, true)    (* ACM_STATUS *)
  ; (816, 4, true)    (* TXT.DPR *)
  ; (48, 4, true)     (* TXT.ERRORCODE *)
  ; (1024, 32, true)  (* TXT.PUBLIC.KEY *)
  ; (0, 8, true)      (* TXT.STS *)
  ; (8, 1, true)      (* TXT.ESTS *)
  ; (160, 8, true)    (* TXT.SPAD *)
  ; (256, 4, true)    (* TXT.VER.FSBIF *)
  ; (512, 4, true)    (* TXT.VER.EMIF *)
  ; (272, 8, true)    (* TXT.DIDVID *)
  ; (624, 4, true)    (* TXT.SINIT.BASE *)
  ; (632, 4, true)    (* TXT.SINIT.SIZE *)
  ; (656, 4, true)    (* TXT.MLE.JOIN *)
  ; (768, 4, true)    (* TXT.HEAP.BASE *)
  ; (776, 4, true)    (* TXT.HEAP.SIZE *)
  ].

(** the summary of one register value: [1; v] for an integer register, the 32
    bytes (length-prefixed) for TXT.PUBLIC.KEY *)
Definition reg_summary (v : list Z) : list Z :=
  if lenZ v =? 32 then 32 :: v else [1; le_val v].

(** one Read* function *)
Definition read_reg (fx : fixes) (data : list Z) (e : Z * Z * bool) : rd (list Z) :=
  let '(off, w, sl) := e in
  (if sl then slice_at fx data off else seek data off) ;;; v <- read_n w ;; ret (reg_summary v).

Definition read_reg_k (fx : fixes) (data : list Z) (k : Z) : rd (list Z) :=
  match nth_error txt_reg_table (Z.to_nat k) with
  | Some e => read_reg fx data e
  | None => fail E_OTHER
  end.

(** ReadTXTRegisters: a failing fetch is recorded and skipped; an error is
    returned (beside the registers fetched) when at least one fetch failed *)
Fixpoint read_txt_loop (fx : fixes) (data : list Z) (tbl : list (Z * Z * bool)) (nerr : Z) (racc : list Z) : rd (list Z) := fun s =>
  match tbl with
  | [] => if 0 <? nerr then RErr E_OTHER s else ROk (rev racc) s
  | e :: t =>
      match read_reg fx data e s with
      | ROk v s' => read_txt_loop fx data t nerr (rev_append v racc) s'
      | RErr _ s' => read_txt_loop fx data t (nerr + 1) racc s'
      | RPanic => RPanic
      | RFuel => RFuel
      end
  end.
Definition read_txt_registers (fx : fixes) (data : list Z) : rd (list Z) :=
  read_txt_loop fx data txt_reg_table 0 [].

(** ** pkg/registers/marshalling.go: ValueFromBytes *)

Definition ID_PUBKEY : list Z := [84; 88; 84; 46; 80; 85; 66; 76; 73; 67; 46; 75; 69; 89].
(** register id -> width in bytes of the parser table the id is listed in.
    ACM_STATUS is listed in the 64-bit table but its type is uint32:
    [ACMStatus(raw)] keeps the low 32 bits (see [value_from_bytes]). *)
Definition ID_ACM_STATUS : list Z := [65; 67; 77; 95; 83; 84; 65; 84; 85; 83].
Definition reg_width_table : list (list Z * Z) :=
  [ ([66; 79; 79; 84; 95; 71; 85; 65; 82; 68; 95; 80; 66; 69; 67], 8) (* BOOT_GUARD_PBEC *)
  ; ([66; 84; 71; 95; 83; 65; 67; 77; 95; 73; 78; 70; 79], 8) (* BTG_SACM_INFO *)
  ; ([73; 65; 51; 50; 95; 68; 69; 66; 85; 71; 95; 73; 78; 84; 69; 82; 70; 65; 67; 69], 8) (* IA32_DEBUG_INTERFACE *)
  ; ([73; 65; 51; 50; 95; 70; 69; 65; 84; 85; 82; 69; 95; 67; 79; 78; 84; 82; 79; 76], 8) (* IA32_FEATURE_CONTROL *)
  ; ([73; 65; 51; 50; 95; 77; 84; 82; 82; 67; 65; 80], 8) (* IA32_MTRRCAP *)
  ; ([73; 65; 51; 50; 95; 80; 76; 65; 84; 70; 79; 82; 77; 95; 73; 68], 8) (* IA32_PLATFORM_ID *)
  ; ([73; 65; 51; 50; 95; 83; 77; 82; 82; 95; 80; 72; 89; 83; 66; 65; 83; 69], 8) (* IA32_SMRR_PHYSBASE *)
  ; ([73; 65; 51; 50; 95; 83; 77; 82; 82; 95; 80; 72; 89; 83; 77; 65; 83; 75], 8) (* IA32_SMRR_PHYSMASK *)
  ; ([65; 67; 77; 95; 80; 79; 76; 73; 67; 89; 95; 83; 84; 65; 84; 85; 83], 8) (* ACM_POLICY_STATUS *)
  ; ([65; 67; 77; 95; 83; 84; 65; 84; 85; 83], 8) (* ACM_STATUS *)
  ; ([84; 88; 84; 46; 83; 80; 65; 68], 8) (* TXT.SPAD *)
  ; ([84; 88; 84; 46; 68; 73; 68; 86; 73; 68], 8) (* TXT.DIDVID *)
  ; ([84; 88; 84; 46; 83; 84; 83], 8) (* TXT.STS *)
  ; ([84; 88; 84; 46; 86; 69; 82; 46; 70; 83; 66; 73; 70], 4) (* TXT.VER.FSBIF *)
  ; ([84; 88; 84; 46; 86; 69; 82; 46; 69; 77; 73; 70], 4) (* TXT.VER.EMIF *)
  ; ([84; 88; 84; 46; 83; 73; 78; 73; 84; 46; 66; 65; 83; 69], 4) (* TXT.SINIT.BASE *)
  ; ([84; 88; 84; 46; 83; 73; 78; 73; 84; 46; 83; 73; 90; 69], 4) (* TXT.SINIT.SIZE *)
  ; ([84; 88; 84; 46; 77; 76; 69; 46; 74; 79; 73; 78], 4) (* TXT.MLE.JOIN *)
  ; ([84; 88; 84; 46; 72; 69; 65; 80; 46; 66; 65; 83; 69], 4) (* TXT.HEAP.BASE *)
  ; ([84; 88; 84; 46; 72; 69; 65; 80; 46; 83; 73; 90; 69], 4) (* TXT.HEAP.SIZE *)
  ; ([84; 88; 84; 46; 68; 80; 82], 4) (* TXT.DPR *)
  ; ([84; 88; 84; 46; 69; 82; 82; 79; 82; 67; 79; 68; 69], 4) (* TXT.ERRORCODE *)
  ; ([77; 80; 48; 95; 67; 50; 80; 95; 77; 83; 71; 95; 51; 55], 4) (* MP0_C2P_MSG_37 *)
  ; ([77; 80; 48; 95; 67; 50; 80; 95; 77; 83; 71; 95; 51; 56], 4) (* MP0_C2P_MSG_38 *)
  ; ([84; 88; 84; 46; 69; 83; 84; 83], 1) (* TXT.ESTS *)
  ].

Fixpoint lookup_id (id : list Z) (t : list (list Z * Z)) : option Z :=
  match t with
  | [] => None
  | (k, w) :: t' => if zlist_eqb id k then Some w else lookup_id id t'
  end.

(** ValueFromBytes(id, b): the raw value (the reader runs over [b]).  Since the
    repair 4a8d65e in /repo a value with bytes left over after the register's
    width is refused ([buf.Len() != 0] after the read; the reader runs over [b],
    so that is [w < len b]); before it the trailing bytes were ignored
    ([strict = false], kept for the [_needs_] theorem only). *)
Definition value_from_bytes_g (strict : bool) (id : list Z) (b : list Z) : rd (list Z) :=
  if zlist_eqb id ID_PUBKEY then
    (if lenZ b =? 32 then ret b else fail E_OTHER)
  else match lookup_id id reg_width_table with
       | Some w => v <- read_le w ;;
                   if strict && (w <? lenZ b) then fail E_OTHER
                   else ret [if zlist_eqb id ID_ACM_STATUS then v mod 4294967296 else v]
       | None => fail E_OTHER
       end.
(** the code as it is *)
Definition value_from_bytes : list Z -> list Z -> rd (list Z) := value_from_bytes_g true.

(** the serialised width of a register id: 32 for TXT.PUBLIC.KEY, the width of
    the parser table the id is listed in, [None] for an unknown id *)
Definition reg_width (id : list Z) : option Z :=
  if zlist_eqb id ID_PUBKEY then Some 32 else lookup_id id reg_width_table.

(** registersForSerializationOBSOLETE.ParseRegisters over the entries
    json.Unmarshal produced; the harness frames them as
    [idlen; id...; vlen; value...]*.  registers.New on the result of
    ValueFromBytes never fails (same type). *)
Fixpoint parse_registers (fuel : nat) (enc : list Z) (racc : list Z) : rd (list Z) := fun s =>
  match fuel with
  | O => RFuel
  | S f =>
      match enc with
      | [] => ROk (rev racc) s
      | il :: t =>
          match takeZ t il with
          | None => RErr E_OTHER s
          | Some (id, t1) =>
              match t1 with
              | [] => RErr E_OTHER s
              | vl :: t2 =>
                  match takeZ t2 vl with
                  | None => RErr E_OTHER s
                  | Some (v, t3) =>
                      match value_from_bytes id v (set_rest s v) with
                      | ROk r s' => parse_registers f t3 (rev_append (if lenZ r =? 32 then 32 :: r else 1 :: r) racc) s'
                      | RErr c s' => RErr c s'
                      | RPanic => RPanic
                      | RFuel => RFuel
                      end
                  end
              end
          end
      end
  end.

(** ** pkg/tpm/parse_sysfs_pcrs.go *)

Fixpoint split_on (sep : Z) (l : list Z) : list (list Z) :=
  match l with
  | [] => [[]]
  | x :: t =>
      match split_on sep t with
      | cur :: rest => if x =? sep then [] :: cur :: rest else (x :: cur) :: rest
      | [] => [[]]
      end
  end.

Definition is_sp1 (c : Z) : bool := ((9 <=? c) && (c <=? 13)) || (c =? 32).
(** UTF-8 encodings of the other White_Space runes: U+0085, U+00A0 (2 bytes);
    U+1680, U+2000..U+200A, U+2028, U+2029, U+202F, U+205F, U+3000 (3 bytes) *)
Definition is_sp2 (a b : Z) : bool := (a =? 194) && ((b =? 133) || (b =? 160)).
Definition is_sp3 (a b c : Z) : bool :=
  ((a =? 225) && (b =? 154) && (c =? 128))
  || ((a =? 226) && (b =? 128) && (((128 <=? c) && (c <=? 138)) || (c =? 168) || (c =? 169) || (c =? 175)))
  || ((a =? 226) && (b =? 129) && (c =? 159))
  || ((a =? 227) && (b =? 128) && (c =? 128)).

(** drop leading white space runes (fmt ss.SkipSpace, strings.TrimLeft...) *)
Fixpoint skip_space (l : list Z) : list Z :=
  match l with
  | [] => []
  | a :: t =>
      if is_sp1 a then skip_space t else
      match t with
      | [] => l
      | b :: t2 =>
          if is_sp2 a b then skip_space t2 else
          match t2 with
          | [] => l
          | c :: t3 => if is_sp3 a b c then skip_space t3 else l
          end
      end
  end.
(** the same from the right (utf8.DecodeLastRune): on the reversed list the
    patterns are reversed *)
Fixpoint skip_space_rev (l : list Z) : list Z :=
  match l with
  | [] => []
  | a :: t =>
      if is_sp1 a then skip_space_rev t else
      match t with
      | [] => l
      | b :: t2 =>
          if is_sp2 b a then skip_space_rev t2 else
          match t2 with
          | [] => l
          | c :: t3 => if is_sp3 c b a then skip_space_rev t3 else l
          end
      end
  end.
Definition trim_space (l : list Z) : list Z := rev (skip_space_rev (rev (skip_space l))).

Definition is_digit (c : Z) : bool := (48 <=? c) && (c <=? 57).
Definition is_hexd (c : Z) : bool :=
  is_digit c || ((97 <=? c) && (c <=? 102)) || ((65 <=? c) && (c <=? 70)).
Definition hexd_val (c : Z) : Z := if c <=? 57 then c - 48 else if 97 <=? c then c - 87 else c - 55.

(** literal characters of a Sscanf format against the input *)
Fixpoint match_lit (lit l : list Z) : outcome (list Z) :=
  match lit with
  | [] => Ok l
  | c :: lit' =>
      match l with
      | [] => Err E_UEOF                     (* mustReadRune *)
      | x :: t => if x =? c then match_lit lit' t else Err E_OTHER  (* input does not match format *)
      end
  end.

(** %X into a []byte: pairs of hex digits *)
Fixpoint hex_string (l : list Z) : outcome (list Z) :=
  match l with
  | h :: t =>
      if is_hexd h then
        match t with
        | [] => Err E_UEOF
        | lo :: t2 =>
            if is_hexd lo then
              match hex_string t2 with
              | Ok r => Ok ((hexd_val h * 16 + hexd_val lo) :: r)
              | e => e
              end
            else Err E_OTHER                 (* illegal hex digit *)
        end
      else Ok []
  | [] => Ok []
  end.

(** the part of the format after the index: ":%X" *)
Definition scan_tail (idx : Z) (l3 : list Z) : outcome (Z * list Z) :=
  match match_lit [58] l3 with
  | Ok l4 =>
      match skip_space l4 with
      | [] => Err E_EOF                      (* convertString: notEOF *)
      | l5 =>
          match hex_string l5 with
          | Ok [] => Err E_OTHER             (* no hex data for %x string *)
          | Ok v => Ok (idx, v)
          | Err c => Err c
          | Panic => Panic
          | OutOfFuel => OutOfFuel
          end
      end
  | Err c => Err c
  | Panic => Panic
  | OutOfFuel => OutOfFuel
  end.

(** fmt.Sscanf(line, "PCR-%02d:%X", &pcrIndex, &pcrValue) *)
Definition sscanf_pcr (line : list Z) : outcome (Z * list Z) :=
  match match_lit [80; 67; 82; 45] line with
  | Ok l0 =>
      let l1 := skip_space l0 in
      match l1 with
      | [] => Err E_EOF                      (* scanInt: notEOF *)
      | c0 :: t0 =>
          (* width 2 counts the sign *)
          let signed := (c0 =? 43) || (c0 =? 45) in
          let l2 := if signed then t0 else l1 in
          match l2 with
          | [] => Err E_EOF                  (* scanNumber: notEOF *)
          | d1 :: t1 =>
              if is_digit d1 then
                let two := match t1 with d2 :: _ => negb signed && is_digit d2 | [] => false end in
                let v := if two then (d1 - 48) * 10 + (hd 0 t1 - 48) else d1 - 48 in
                let l3 := if two then tl t1 else t1 in
                scan_tail (if c0 =? 45 then - v else v) l3
              else Err E_OTHER               (* expected integer *)
          end
      end
  | Err c => Err c
  | Panic => Panic
  | OutOfFuel => OutOfFuel
  end.

Definition AMOUNT_OF_PCRS : Z := 24.

Fixpoint set_nth (l : list (list Z)) (i : nat) (v : list Z) : option (list (list Z)) :=
  match l, i with
  | [], _ => None
  | _ :: t, O => Some (v :: t)
  | x :: t, S i' => match set_nth t i' v with Some t' => Some (x :: t') | None => None end
  end.

(** [guard_idx = false] models the code before the fix of the 25th-line bug
    (index >= 24 reached [pcrs[pcrIndex]]); the repository has the guard. *)
Fixpoint sysfs_loop (guard_idx : bool) (lines : list (list Z)) (line_num : Z) (pcrs : list (list Z)) : rd (list (list Z)) := fun s =>
  match lines with
  | [] => ROk pcrs s
  | line :: t =>
      let s := tick s in
      match line with
      | [] => sysfs_loop guard_idx t (line_num + 1) pcrs s
      | _ =>
          match sscanf_pcr (filter (fun c => negb (c =? 32)) line) with
          | Ok (idx, v) =>
              if guard_idx && ((idx <? 0) || (AMOUNT_OF_PCRS <=? idx)) then RErr E_OTHER s
              else if negb (line_num =? idx) then RErr E_OTHER s
              else if negb (lenZ v =? 20) then RErr E_OTHER s
              else match set_nth pcrs (Z.to_nat idx) v with
                   | Some pcrs' => sysfs_loop guard_idx t (line_num + 1) pcrs' s
                   | None => RPanic           (* index out of range *)
                   end
          | Err c => RErr c s
          | Panic => RPanic
          | OutOfFuel => RFuel
          end
      end
  end.

Definition parse_sysfs_pcrs_g (guard_idx : bool) (data : list Z) : rd (list Z) :=
  pcrs <- sysfs_loop guard_idx (split_on 10 data) 0 (repeat [] 24) ;;
  ret (flat_map (fun v => lenZ v :: v) pcrs).
Definition parse_sysfs_pcrs : list Z -> rd (list Z) := parse_sysfs_pcrs_g true.

(** ** pkg/tpmdetection/detection.go: local(), the capability-file part *)

Definition TCG_VERSION : list Z := [84; 67; 71; 32; 118; 101; 114; 115; 105; 111; 110].

(** strings.SplitN(line, ":", 2) *)
Fixpoint split_colon (l : list Z) : option (list Z * list Z) :=
  match l with
  | [] => None
  | x :: t => if x =? 58 then Some ([], t)
              else match split_colon t with Some (a, b) => Some (x :: a, b) | None => None end
  end.

Fixpoint caps_loop (lines : list (list Z)) : rd (list Z) := fun s =>
  match lines with
  | [] => ROk [] s
  | line :: t =>
      let s := tick s in
      match split_colon line with
      | None => RErr E_OTHER s
      | Some (k, v) =>
          if zlist_eqb (trim_space k) TCG_VERSION then ROk (trim_space v) s
          else caps_loop t s
      end
  end.

(** the TPM types (pkg/tpmdetection: TypeNoTPM, TypeTPM12, TypeTPM20; constants tie) *)
Definition TypeNoTPM : Z := 0.
Definition TypeTPM12 : Z := 1.
Definition TypeTPM20 : Z := 2.

Definition local_caps (caps : list Z) : rd (list Z) :=
  ver <- caps_loop (split_on 10 caps) ;;
  ret [if zlist_eqb ver [50; 46; 48] then TypeTPM20 else TypeTPM12].

(** ** pkg/check/bounds.go: BytesRange(b, start, end) with len(b) = [len] *)
Definition bytes_range (len start fin : Z) : rd (list Z) :=
  let e1 := start <? 0 in
  let e2 := fin <? start in
  let e3 := (0 <=? fin) && (len <? fin) in
  if e1 || e2 || e3 then fail E_OTHER else ret [].

(** ** pkg/provisioning/bootguard/keygen.go: DecryptPrivKey, framing only.
    With a password: [if len(data) < 12 { error }] (4423a4c), then
    [data[:12]] / [data[12:]] (which panicked on shorter data before; cap = len
    in the harness); AES-GCM, PEM and PKCS#8 are third-party and not modelled:
    a non-panicking run is reported as [Err]/[Ok] by them, the model says
    [Ok []] or the length error. *)
Definition decrypt_frame (fx : fixes) (has_pw : bool) (data : list Z) : rd (list Z) :=
  if has_pw then (if has_len data 12 then ret [] else if fx_bounds fx then fail E_FIX else panic) else ret [].

(** parsePrivateKey (behind DecryptPrivKey) and ReadPubKey: the loop over the
    PEM blocks of the file.  [decode] stands for encoding/pem.Decode (third
    party): [None] = no further block, [Some (is_certificate, rest)].
    CERTIFICATE blocks are skipped ([raw = rest]); any other block ends the loop
    (the x509 parsers return a key or an error: [Ok true]); running out of
    blocks is the "failed to parse" error.  Not part of the correspondence check
    (pem.Decode is not modelled); the harness feeds multi-block PEM files to the
    real functions under the oracle's deadline. *)
Fixpoint pem_loop (decode : list Z -> option (bool * list Z)) (fuel : nat) (raw : list Z) : outcome bool :=
  match fuel with
  | O => OutOfFuel
  | S f =>
      match decode raw with
      | None => Err E_OTHER
      | Some (true, rest) => pem_loop decode f rest
      | Some (false, _) => Ok true
      end
  end.
