(** Model of the TPM-affecting part of a boot simulation:
    pkg/bootflow/actions/tpmactions (TPMInit, TPMEvent, TPMExtend, TPMEventLogAdd),
    pkg/bootflow/steps/tpmsteps (InitTPM, LogInit, Measure),
    pkg/bootflow/steps/intelsteps/measure_pcr0_data.go (the PCR0_DATA extend/log-add pair),
    pkg/bootflow/types/data.go (Data.ConvertedBytes, References.RawBytes),
    pkg/bootflow/dataconverters/hasher.go, and tpm.Commands.Apply.
    Executable definitions only; proofs live in Proofs/BootSim.v.

    The simulated TPM itself is Model/TPM.v (C02), the two replay routines are
    Model/EventLog.v (C12), the bytes of one reference are a parameter
    [bytes_of] (instantiated with Model/Refs.v [ref_rawbytes], C11, in the
    theorems and in the correspondence cases).  The order in which the
    interpreter applies the actions of a flow is C09 (Model/Interp.v): a flow is
    seen here as the list of its executed steps, each step a list of items.

    [H alg message] is the hash function: a parameter, never implemented. *)
From CSS Require Import Lib.Base Model.TPM.
From CSS Require Model.EventLog.
Module EL := CSS.Model.EventLog.

Definition EV_NO_ACTION : Z := 3.          (* tpmeventlog.EV_NO_ACTION *)
Definition EV_S_CRTM_CONTENTS : Z := 7.    (* tpmeventlog.EV_S_CRTM_CONTENTS *)

(** "StartupLocality" *)
Definition STARTUP_LOCALITY : list Z :=
  [83; 116; 97; 114; 116; 117; 112; 76; 111; 99; 97; 108; 105; 116; 121].

(** [append([]byte("StartupLocality\x00"), locality)]: the locality byte itself (before the
    fix in /repo the byte was formatted with "%c", two UTF-8 bytes from 128 on) *)
Definition startup_bytes (l : Z) : list Z := STARTUP_LOCALITY ++ [0] ++ [l].

(** "PCR0_DATA " + manifest.Algorithm.String() *)
Definition pcr0_data_descr (a : Z) : list Z :=
  [80; 67; 82; 48; 95; 68; 65; 84; 65; 32] ++
  (if a =? 4 then [83; 72; 65; 49] else [83; 72; 65; 50; 53; 54]).

Section Sim.
(** a reference (artifact + mapper + ranges) and [Reference.RawBytes] (panics
    when a range cannot be resolved or read) *)
Variable ref : Type.
Variable bytes_of : ref -> outcome (list Z).
Variable H : Z -> list Z -> list Z.

(** * types.Data *)

(** [d_conv]: [None] is a nil Converter, [Some a] is dataconverters.Hasher /
    HasherFactory over the hash of TPM algorithm [a] *)
Record mdata := mkData { d_refs : list ref; d_conv : option Z }.

(** [References.RawBytes]: concatenation in reference order *)
Fixpoint raw_bytes (rs : list ref) : outcome (list Z) :=
  match rs with
  | [] => Ok []
  | r :: t => bind (bytes_of r) (fun a => bind (raw_bytes t) (fun b => Ok (a ++ b)))
  end.

(** [RawBytes.ConvertBy] *)
Definition convert (c : option Z) (raw : list Z) : list Z :=
  match c with None => raw | Some a => H a raw end.

(** [Data.ConvertedBytes] *)
Definition converted (d : mdata) : outcome (list Z) :=
  bind (raw_bytes (d_refs d)) (fun raw => Ok (convert (d_conv d) raw)).

(** [DataSource.Data(ctx, state)]: data, an error, or a panic *)
Inductive dsrc :=
| DS (d : mdata)
| DSErr
| DSPanic.

(** * Actions *)

Inductive tact :=
| AInit (l : Z)                                                   (* tpmactions.TPMInit *)
| AEvent (p : Z) (src : dsrc) (ty : Z) (evd : option (list Z))    (* tpmactions.TPMEvent *)
| AExtend (p : Z) (src : dsrc) (a : Z)                            (* tpmactions.TPMExtend *)
| ALogAdd (p a : Z) (d : list Z) (ty : Z) (evd : option (list Z)) (* tpmactions.TPMEventLogAdd *)
| APanic.                                                         (* commonactions.Panic *)

(** the TPM and [State.MeasuredData] (the Data of each entry) *)
Record sim := mkSim { s_tpm : state; s_meas : list mdata }.

Definition with_tpm (s : sim) (t : state) : sim := mkSim t (s_meas s).
Definition add_meas (s : sim) (d : mdata) : sim := mkSim (s_tpm s) (s_meas s ++ [d]).

(** the loop of [TPMEvent.Apply] over tpm.SupportedHashAlgos(): hash the
    converted bytes, TPMExtend, TPMEventLogAdd with the same digest; the first
    failing command ends the action *)
Fixpoint event_loop (t : state) (p : Z) (msg : list Z) (ty : Z) (evd : option (list Z))
         (algs : list Z) : state * outcome unit :=
  match algs with
  | [] => (t, Ok tt)
  | a :: rest =>
      let d := H a msg in
      let '(t1, r1) := step H t (Extend p a d) in
      match r1 with
      | Ok _ =>
          let '(t2, r2) := step H t1 (LogAdd p a d ty evd) in
          match r2 with
          | Ok _ => event_loop t2 p msg ty evd rest
          | o => (t2, o)
          end
      | o => (t1, o)
      end
  end.

(** [Action.Apply] *)
Definition apply_act (s : sim) (a : tact) : sim * outcome unit :=
  match a with
  | AInit l =>
      let '(t, r) := step H (s_tpm s) (Startup l) in (with_tpm s t, r)
  | AEvent p src ty evd =>
      match src with
      | DSErr => (s, Err 1)
      | DSPanic => (s, Panic)
      | DS d =>
          match converted d with
          | Ok msg =>
              let '(t, r) := event_loop (s_tpm s) p msg ty evd supported in
              match r with
              | Ok _ => (add_meas (with_tpm s t) d, Ok tt)
              | o => (with_tpm s t, o)
              end
          | Err e => (s, Err e)
          | Panic => (s, Panic)
          | OutOfFuel => (s, OutOfFuel)
          end
      end
  | AExtend p src a =>
      match src with
      | DSErr => (s, Err 1)
      | DSPanic => (s, Panic)
      | DS d =>
          match converted d with
          | Ok msg =>
              let '(t, r) := step H (s_tpm s) (Extend p a msg) in
              match r with
              | Ok _ => (add_meas (with_tpm s t) d, Ok tt)
              | o => (with_tpm s t, o)
              end
          | Err e => (s, Err e)
          | Panic => (s, Panic)
          | OutOfFuel => (s, OutOfFuel)
          end
      end
  | ALogAdd p a d ty evd =>
      let '(t, r) := step H (s_tpm s) (LogAdd p a d ty evd) in (with_tpm s t, r)
  | APanic => (s, Panic)
  end.

(** the actions of one step, in order (the interpreter records an issue for an
    action that fails or panics and goes on with the next one) *)
Fixpoint run_acts (s : sim) (acts : list tact) : sim * list (outcome unit) :=
  match acts with
  | [] => (s, [])
  | a :: rest =>
      let '(s1, r) := apply_act s a in
      let '(s2, rs) := run_acts s1 rest in
      (s2, r :: rs)
  end.

(** * Steps *)

Inductive item :=
| IInit (l : Z)                                                   (* StaticStep{NewTPMInit(l)} *)
| IInitTPM (l : Z) (withLog : bool)                               (* tpmsteps.InitTPM *)
| ILogInit (l : Z)                                                (* tpmsteps.LogInit *)
| IEvent (p : Z) (src : dsrc) (ty : Z) (evd : option (list Z))    (* NewTPMEvent; tpmsteps.Measure has evd = None *)
| IExtend (p : Z) (src : dsrc) (a : Z)                            (* bare NewTPMExtend *)
| ILogAdd (p a : Z) (d : list Z) (ty : Z) (evd : option (list Z)) (* bare NewTPMEventLogAdd *)
| IPCR0Data (r1 r256 : option (list ref))                         (* intelsteps.MeasurePCR0DATA: the six
                                                                     references per bank; None = no IBB digest
                                                                     of that algorithm in the BPM *)
| IPanic.                                                         (* commonsteps.Panic, or a step that could not
                                                                     be built and returns commonactions.Panic *)

(** [LogInitStruct.Actions]: one EV_NO_ACTION entry per algorithm in
    [tpm.SupportedAlgos], digest = that many zero bytes *)
Definition log_init (t : state) (l : Z) : list tact :=
  if forallb is_hash (algos t)
  then map (fun a => ALogAdd 0 a (repeat 0 (hsize a)) EV_NO_ACTION (Some (startup_bytes l))) (algos t)
  else [APanic].

(** [pcr0DATA.compileActions]: TPMExtend of the Hasher-converted data plus a
    TPMEventLogAdd whose digest is [data.ConvertedBytes()] evaluated while the
    step is being compiled (a panic there is a panic of [Step.Actions]) *)
Definition pcr0_pair (a : Z) (refs : option (list ref)) : outcome (list tact) :=
  match refs with
  | None => Ok [APanic]
  | Some rs =>
      let d := mkData rs (Some a) in
      bind (converted d) (fun dg =>
      Ok [AExtend 0 (DS d) a; ALogAdd 0 a dg EV_S_CRTM_CONTENTS (Some (pcr0_data_descr a))])
  end.

Definition compile_item (t : state) (it : item) : outcome (list tact) :=
  match it with
  | IInit l => Ok [AInit l]
  | IInitTPM l wl => Ok (AInit l :: (if wl then log_init t l else []))
  | ILogInit l => Ok (log_init t l)
  | IEvent p src ty evd => Ok [AEvent p src ty evd]
  | IExtend p src a => Ok [AExtend p src a]
  | ILogAdd p a d ty evd => Ok [ALogAdd p a d ty evd]
  | IPCR0Data r1 r256 =>
      bind (pcr0_pair ALG_SHA1 r1) (fun x => bind (pcr0_pair ALG_SHA256 r256) (fun y => Ok (x ++ y)))
  | IPanic => Ok [APanic]
  end.

(** [Step.Actions(ctx, state)] of a step made of several items (MergeSteps /
    StaticStep): everything is compiled against the state at the start of the step *)
Fixpoint compile_step (t : state) (its : list item) : outcome (list tact) :=
  match its with
  | [] => Ok []
  | it :: rest => bind (compile_item t it) (fun x => bind (compile_step t rest) (fun y => Ok (x ++ y)))
  end.

(** one step: a panic of [Step.Actions] is an issue and the step has no actions *)
Definition run_step (s : sim) (its : list item) : sim * list (outcome unit) :=
  match compile_step (s_tpm s) its with
  | Ok acts => run_acts s acts
  | _ => (s, [Panic])
  end.

Fixpoint run_flow (s : sim) (fl : list (list item)) : sim * list (list (outcome unit)) :=
  match fl with
  | [] => (s, [])
  | st :: rest =>
      let '(s1, r) := run_step s st in
      let '(s2, rs) := run_flow s1 rest in
      (s2, r :: rs)
  end.

(** a new state with a new TPM *)
Definition sim0 : sim := mkSim fresh [].

(** * Boots on a TPM object that served earlier boots *)

(** How the [*tpm.TPM] of a boot was obtained: [NewTPM()], or the object of the
    earlier boots recycled with [Reset()], with [DoNotUse_ResetNoInit()], or
    (pcrbruteforcer.replayTPMCommands) with [DoNotUse_ResetNoInit()] followed
    by a direct assignment [tpm.SupportedAlgos = SupportedHashAlgos()] *)
Inductive reuse := RNew | RReset | RResetNoInit | RResetNoInitAlgos.

Definition set_algos (t : state) (al : list Z) : state :=
  mkState al (pcrs t) (cmdlog t) (evlog t).

(** the object a boot starts on; [prev] is the object as the earlier boots left it *)
Definition recycle (prev : state) (r : reuse) : state :=
  match r with
  | RNew => fresh
  | RReset => fst (step H prev Reset)
  | RResetNoInit => fst (step H prev ResetNoInit)
  | RResetNoInitAlgos => set_algos (fst (step H prev ResetNoInit)) supported
  end.

(** ... which does not depend on [prev] (Proofs/BootSim.v [recycle_start]; one
    level lower, where the PCR buffers of [prev] are physically re-used,
    Proofs/BootSimSlices.v) *)
Definition start_of (r : reuse) : state :=
  match r with RResetNoInit => blank | _ => fresh end.

(** a new (or reset) State whose TPM is that object *)
Definition boot_start (r : reuse) : sim := mkSim (start_of r) [].

(** a session: boots on ONE TPM object, each with its own State *)
Fixpoint run_boots (prev : state) (bs : list (reuse * list (list item)))
  : list (sim * list (list (outcome unit))) :=
  match bs with
  | [] => []
  | (r, fl) :: rest =>
      let res := run_flow (mkSim (recycle prev r) []) fl in
      res :: run_boots (s_tpm (fst res)) rest
  end.

(** * Re-executing a command log *)

(** [tpm.Commands.Apply]: [cmd.Apply] one by one (nothing is logged), stopping
    at the first error *)
Fixpoint commands_apply (t : state) (cs : list cmd) : state * outcome unit :=
  match cs with
  | [] => (t, Ok tt)
  | c :: rest =>
      let '(t1, r) := apply H t c in
      match r with
      | Ok _ => commands_apply t1 rest
      | o => (t1, o)
      end
  end.

(** [cmd.Apply] one by one, going on after an error (as the flow did) *)
Fixpoint reexec (t : state) (cs : list cmd) : state :=
  match cs with
  | [] => t
  | c :: rest => reexec (fst (apply H t c)) rest
  end.

End Sim.

Arguments mkData {ref}.
Arguments d_refs {ref}.
Arguments d_conv {ref}.
Arguments DS {ref}.
Arguments DSErr {ref}.
Arguments DSPanic {ref}.
Arguments AInit {ref}.
Arguments AEvent {ref}.
Arguments AExtend {ref}.
Arguments ALogAdd {ref}.
Arguments APanic {ref}.
Arguments IInit {ref}.
Arguments IInitTPM {ref}.
Arguments ILogInit {ref}.
Arguments IEvent {ref}.
Arguments IExtend {ref}.
Arguments ILogAdd {ref}.
Arguments IPCR0Data {ref}.
Arguments IPanic {ref}.
Arguments mkSim {ref}.
Arguments s_tpm {ref}.
Arguments s_meas {ref}.
Arguments sim0 {ref}.
Arguments boot_start {ref}.

(** * The event log as the two replay routines see it *)

Definition odata (d : option (list Z)) : list Z := match d with Some x => x | None => [] end.

(** tpm.EventLog -> tpmeventlog.TPMEventLog (every entry has a digest) *)
Definition to_parsed (l : list event) : list EL.event :=
  map (fun e => match e with EV p a d ty data => EL.mkEv p ty (odata data) (Some (EL.mkDg a d)) end) l.

(** tpm.EventLog as Model/EventLog.v sees it *)
Definition to_entries (l : list event) : list EL.entry :=
  map (fun e => match e with EV p a d ty data => EL.mkEn p a d ty (odata data) end) l.
