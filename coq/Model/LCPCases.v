(** Case language of the C17 correspondence check. The Go harness
    (harness/cmd/c17) writes [coq/gen/Cases_C17_*.v] with the inputs it gave to
    pkg/tools/lcp.go AND what the implementation returned; [check] re-runs the
    model of Model/LCP.v on the same inputs. *)
From CSS Require Import Lib.Base Lib.Cases Model.LCP Model.LCPConfig.

(** observed result with the error class (1 io.EOF, 2 io.ErrUnexpectedEOF,
    3 "can't parse", 4 tpm2 hash lookup failed, 5 "invalid hash algorithm";
    loadConfig: 6 strconv.ParseUint error, 7 "invalid LCP Version", 8 "cant determin
    hash algorithm", 9 "invalid PolicyType") *)
Inductive robs (A : Type) : Type :=
| ROk (a : A)
| RErr (c : Z)
| RPanic.
Arguments ROk {A} a.
Arguments RErr {A} c.
Arguments RPanic {A}.

Definition robs_match {A} (eqb : A -> A -> bool) (o : robs A) (m : outcome A) : bool :=
  match o, m with
  | ROk a, Ok b => eqb a b
  | RErr c, Err d => c =? d
  | RPanic, Panic => true
  | _, _ => false
  end.

Definition p1_eqb (a b : policy1) : bool :=
  (p1_version a =? p1_version b) && (p1_hashalg a =? p1_hashalg b) && (p1_ptype a =? p1_ptype b) &&
  (p1_sinit a =? p1_sinit b) && (p1_reserved a =? p1_reserved b) && zlist_eqb (p1_drc a) (p1_drc b) &&
  (p1_pc a =? p1_pc b) && (p1_maxsinit a =? p1_maxsinit b) && (p1_res1 a =? p1_res1 b) &&
  (p1_res2 a =? p1_res2 b) && (p1_res3 a =? p1_res3 b) && zlist_eqb (p1_hash a) (p1_hash b).

Definition p2_eqb (a b : policy2) : bool :=
  (p2_version a =? p2_version b) && (p2_hashalg a =? p2_hashalg b) && (p2_ptype a =? p2_ptype b) &&
  (p2_sinit a =? p2_sinit b) && zlist_eqb (p2_drc a) (p2_drc b) && (p2_pc a =? p2_pc b) &&
  (p2_maxsinit a =? p2_maxsinit b) && (p2_reserved a =? p2_reserved b) && (p2_hmask a =? p2_hmask b) &&
  (p2_smask a =? p2_smask b) && (p2_res2 a =? p2_res2 b) && zlist_eqb (p2_hash a) (p2_hash b).

Definition p12_eqb (a b : policy1 + policy2) : bool :=
  match a, b with
  | inl x, inl y => p1_eqb x y
  | inr x, inr y => p2_eqb x y
  | _, _ => false
  end.

(** flag structs travel as bool lists in Go field order *)
Definition pc_of (l : list bool) : pctrl :=
  match l with [a; b; c; d] => MkPC a b c d | _ => MkPC false false false false end.
Definition ah_of (l : list bool) : ahash :=
  match l with [a; b; c; d] => MkAH a b c d | _ => MkAH false false false false end.
Definition as_of (l : list bool) : asig :=
  match l with [a; b; c; d; e; f; g] => MkAS a b c d e f g | _ => MkAS false false false false false false false end.
Definition pc_list (p : pctrl) : list bool := [pc_npw p; pc_owner p; pc_auxdel p; pc_sinitcaps p].
Definition ah_list (a : ahash) : list bool := [ah_sha1 a; ah_sha256 a; ah_sha384 a; ah_sm3 a].
Definition as_list (a : asig) : list bool :=
  [as_rsa2048sha1 a; as_rsa2048sha256 a; as_rsa3072sha256 a; as_rsa3072sha384 a;
   as_ecdsap256sha256 a; as_ecdsap384sha384 a; as_sm2 a].
Definition blist_eqb := list_eqb Bool.eqb.

Inductive case : Type :=
(* GenLCPPolicyV2(version, crypto.Hash id, digest, sinitmin, pc, apprHashes, apprSigs) *)
| CGen (version hashid : Z) (digest : list Z) (sinit : Z) (pc ah sg : list bool) (r : robs policy2)
(* binary.Write(LittleEndian, LCPPolicy) / (…, LCPPolicy2) *)
| CEnc1 (p : policy1) (bytes : list Z)
| CEnc2 (p : policy2) (bytes : list Z)
(* ParsePolicy(bytes); sha3 = crypto.SHA3_256.Available() in the harness binary *)
| CParse (sha3 : bool) (b : list Z) (r : robs (policy1 + policy2))
(* LCPPolicy{PolicyControl:w}.ParsePolicyControl, LCPPolicy2{...}.ParsePolicyControl2,
   ParseApprovedHashAlgorithm, ParseApprovedSignatureAlgorithm on raw words *)
| CFlags (wpc wah was : Z) (pc1 pc2 ah sg : list bool)
(* txt-prov loadConfig(file) with the eight strings of the JSON config (a key that is not set
   = the empty string); run in the txt-prov binary itself *)
| CConfig (c : config) (r : robs policy2).

Definition check (c : case) : bool :=
  match c with
  | CGen v h d s pc ah sg r => robs_match p2_eqb r (gen v h d s (pc_of pc) (ah_of ah) (as_of sg))
  | CEnc1 p b => zlist_eqb (encode1 p) b
  | CEnc2 p b => zlist_eqb (encode2 p) b
  | CParse sha3 b r => robs_match p12_eqb r (parse sha3 b)
  | CFlags wpc wah was pc1 pc2 ah sg =>
      blist_eqb (pc_list (parse_pc wpc)) pc1 && blist_eqb (pc_list (parse_pc wpc)) pc2 &&
      blist_eqb (ah_list (parse_ah wah)) ah && blist_eqb (as_list (parse_as was)) sg
  | CConfig c r => robs_match p2_eqb r (load_config c)
  end.

Definition mismatches := mismatches_by check.
