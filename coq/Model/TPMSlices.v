(** Buffer-level model of the simulated TPM: Go slices with explicit backing
    arrays, so that the recycling done by Reset / DoNotUse_ResetNoInit
    (re-slice to [:0]) and CommandInit.Apply (re-slice to the old capacity, zero
    in place) and the in-place [hasher.Sum(pcrValue[:0])] of CommandExtend.Apply
    are visible.  Proofs/TPMSlices.v shows that it refines Model/TPM.v: stale
    bytes left in a backing array are never observable.

    A slice is [mkBuf len mem]: [mem] is the backing array from the slice's
    start (so [cap = length mem]) and the first [len] cells are visible.  No two
    live slice headers of the package share a backing array (every header lives
    in exactly one place: a field of TPM or a cell of the enclosing array), so
    value semantics is adequate. *)
From CSS Require Import Lib.Base Model.TPM.

Record buf (A : Type) : Type := mkBuf { blen : nat; bmem : list A }.
Arguments mkBuf {A} blen bmem.
Arguments blen {A} b.
Arguments bmem {A} b.

Definition vis {A} (b : buf A) : list A := firstn (blen b) (bmem b).
Definition bcap {A} (b : buf A) : nat := length (bmem b).
(** nil slice *)
Definition bnil {A} : buf A := mkBuf 0 [].
(** make([]T, n): a new array of zero values *)
Definition bmake {A} (n : nat) (zero : A) : buf A := mkBuf n (repeat zero n).
(** b[:n] with n <= cap(b) *)
Definition breslice {A} (n : nat) (b : buf A) : buf A := mkBuf n (bmem b).
(** b[i] = x with i < len(b) (bounds are checked by the callers below) *)
Definition bsetZ {A} (i : Z) (x : A) (b : buf A) : buf A := mkBuf (blen b) (updZ i x (bmem b)).
(** zeroSlice(b) *)
Definition bzero (b : buf Z) : buf Z := mkBuf (blen b) (repeat 0 (blen b) ++ skipn (blen b) (bmem b)).

Section Append.
(** Spare capacity Go's [append] allocates when it has to grow (a function of
    the old length); the spare cells hold zero values. *)
Variable grow : nat -> nat.

Definition bappend {A} (zero : A) (b : buf A) (x : A) : buf A :=
  if Nat.ltb (blen b) (bcap b)
  then mkBuf (S (blen b)) (updZ (Z.of_nat (blen b)) x (bmem b))
  else mkBuf (S (blen b)) (vis b ++ x :: repeat zero (grow (blen b))).

End Append.

(** * State *)

Record sstate : Type := mkSState {
  s_algos  : buf Z;
  s_pcrs   : buf (buf (buf Z));
  s_cmdlog : buf cmd;
  s_evlog  : buf event
}.

(** NewTPM(): zero value + init() *)
Definition snew : sstate := mkSState (mkBuf 2 supported) bnil bnil bnil.

(** what the methods of Model/TPM.v see *)
Definition abs_banks (banks : buf (buf Z)) : list (list Z) := map vis (vis banks).
Definition abs_pv (pv : buf (buf (buf Z))) : list (list (list Z)) := map abs_banks (vis pv).
Definition abs (s : sstate) : state :=
  mkState (vis (s_algos s)) (abs_pv (s_pcrs s)) (vis (s_cmdlog s)) (vis (s_evlog s)).

(** * DoNotUse_ResetNoInit, init, Reset *)

Definition sreset_noinit (s : sstate) : sstate :=
  mkSState (breslice 0 (s_algos s)) (breslice 0 (s_pcrs s)) (breslice 0 (s_cmdlog s)) (breslice 0 (s_evlog s)).

(** tpm.init(): a new slice if the capacity is too small, else re-slice and copy *)
Definition sinit (s : sstate) : sstate :=
  let al := s_algos s in
  let al' := if Nat.ltb (bcap al) (length supported)
             then mkBuf (length supported) supported
             else mkBuf (length supported) (supported ++ skipn (length supported) (bmem al)) in
  mkSState al' (s_pcrs s) (s_cmdlog s) (s_evlog s).

Definition sreset (s : sstate) : sstate := sinit (sreset_noinit s).

(** * CommandInit.Apply *)

(** tpm.PCRValues[pcrID] re-sliced to 12 banks, or a new array of nil slices *)
Definition prep_banks (banks : buf (buf Z)) : buf (buf Z) :=
  if Nat.leb BANKS (bcap banks) then breslice BANKS banks else bmake BANKS bnil.

(** tpm.PCRValues[pcrID][hashAlgo] re-sliced and zeroed, or a new zero array;
    then pcrValue[len-1] = locality for PCR0 *)
Definition prep_bank (l a p : Z) (bank : buf Z) : buf Z :=
  let n := hsize a in
  let bank1 := if Nat.leb n (bcap bank) then bzero (breslice n bank) else bmake n 0 in
  if p =? 0 then bsetZ (Z.of_nat n - 1) l bank1 else bank1.

(** one iteration of the inner loop; every index expression of the Go code is
    bounds-checked (a failed check is a Go panic) *)
Definition init_one (l a p : Z) (pv : buf (buf (buf Z))) : outcome (buf (buf (buf Z))) :=
  match nthZ (vis pv) p with
  | None => Panic
  | Some banks =>
      let banks1 := prep_banks banks in
      match nthZ (vis banks1) a with
      | None => Panic
      | Some bank =>
          if Nat.eqb (hsize a) 0 then Panic   (* pcrValue[len(pcrValue)-1] on an empty slice *)
          else Ok (bsetZ p (bsetZ a (prep_bank l a p bank) banks1) pv)
      end
  end.

Fixpoint init_pcr_loop (l a : Z) (ps : list Z) (pv : buf (buf (buf Z))) : outcome (buf (buf (buf Z))) :=
  match ps with
  | [] => Ok pv
  | p :: t => bind (init_one l a p pv) (init_pcr_loop l a t)
  end.

Fixpoint init_alg_loop (l : Z) (als : list Z) (pv : buf (buf (buf Z))) : outcome (buf (buf (buf Z))) :=
  match als with
  | [] => Ok pv
  | a :: t => bind (init_pcr_loop l a (seqZ 0 PCR_AMOUNT) pv) (init_alg_loop l t)
  end.

Definition set_spcrs (s : sstate) (pv : buf (buf (buf Z))) : sstate :=
  mkSState (s_algos s) pv (s_cmdlog s) (s_evlog s).

Definition sstartup (l : Z) (s : sstate) : sstate * outcome unit :=
  if Nat.ltb 0 (blen (s_pcrs s)) then (s, Err ERR_ALREADY_INIT)
  else
    let pv0 := if Nat.leb PCR_AMOUNT (bcap (s_pcrs s))
               then breslice PCR_AMOUNT (s_pcrs s)
               else bmake PCR_AMOUNT bnil in
    match init_alg_loop l supported pv0 with
    | Ok pv => (set_spcrs s pv, Ok tt)
    | Err e => (set_spcrs s pv0, Err e)
    | Panic => (set_spcrs s pv0, Panic)
    | OutOfFuel => (set_spcrs s pv0, OutOfFuel)
    end.

Section WithHash.
Variable H : Z -> list Z -> list Z.
Variable grow : nat -> nat.

(** * CommandExtend.Apply *)

Definition sextend (p a : Z) (d : list Z) (s : sstate) : sstate * outcome unit :=
  if (a <? 0) || (POOL_SIZE <=? a) then (s, Panic)
  else if negb (is_hash a) then (s, Err ERR_BAD_ALG)
  else
    match nthZ (vis (s_pcrs s)) p with
    | None => (s, Err ERR_NO_PCR)
    | Some banks =>
        match nthZ (vis banks) a with
        | None => (s, Err ERR_NO_BANK)
        | Some bank =>
            let old := vis bank in
            if Nat.eqb (length old) (hsize a)
            then
              (* hasher.Sum(pcrValue[:0]): appends hsize bytes to a length-0 slice
                 over the same array; cap >= len = hsize, so it writes in place *)
              let bank' := mkBuf (blen bank) (H a (old ++ d) ++ skipn (hsize a) (bmem bank)) in
              (set_spcrs s (bsetZ p (bsetZ a bank' banks) (s_pcrs s)), Ok tt)
            else (s, Err ERR_BANK_LEN)
        end
    end.

Definition dflt_cmd : cmd := Reset.
Definition dflt_event : event := EV 0 0 [] 0 None.

Definition slog_cmd (s : sstate) (c : cmd) : sstate :=
  mkSState (s_algos s) (s_pcrs s) (bappend grow dflt_cmd (s_cmdlog s) c) (s_evlog s).
Definition slog_event (s : sstate) (e : event) : sstate :=
  mkSState (s_algos s) (s_pcrs s) (s_cmdlog s) (bappend grow dflt_event (s_evlog s) e).

Definition sapply (s : sstate) (c : cmd) : sstate * outcome unit :=
  match c with
  | Startup l => sstartup l s
  | Extend p a d => sextend p a d s
  | LogAdd p a d ty data => (slog_event s (EV p a d ty data), Ok tt)
  | Reset => (sreset s, Ok tt)
  | ResetNoInit => (sreset_noinit s, Ok tt)
  end.

Definition sstep (s : sstate) (c : cmd) : sstate * outcome unit :=
  match c with
  | Reset | ResetNoInit => sapply s c
  | _ => sapply (slog_cmd s c) c
  end.

Fixpoint srun (s : sstate) (h : list cmd) : sstate :=
  match h with
  | [] => s
  | c :: t => srun (fst (sstep s c)) t
  end.

Fixpoint sresults (s : sstate) (h : list cmd) : list (outcome unit) :=
  match h with
  | [] => []
  | c :: t => snd (sstep s c) :: sresults (fst (sstep s c)) t
  end.

End WithHash.
