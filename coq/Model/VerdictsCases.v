(** Case language of the C05 correspondence check.  The Go harness
    (harness/cmd/c05) drives the real checks of pkg/test and
    pkg/provisioning/bootguard through a programmable
    hwapi.LowLevelHardwareInterfaces / constructed manifests and writes
    [coq/gen/Cases_C05_*.v] with the inputs AND the verdict the implementation
    returned; [check] re-runs the model. *)
From CSS Require Import Lib.Base Lib.Cases Model.Verdicts Model.VerdictsLCP.

Inductive fitchk : Type :=
| KNoIBBOverlap | KNoACMOverlap | KCoversRV | KCoversFV | KCoversFIT | KACMBelow4G
| KHasMicrocode | KHasACM | KHasIBB.

(* observations on one platform: GetHFSTS1 / GetHFSTS6 (None: error; else the status word put
   together from the decoded fields); SaneMEBootGuardProvisioning (strict or not) and
   ValidateMEAgainstManifests fed from GetHFSTS6 + GetBGInfo on that platform; the pkg/test
   entry points BootGuardSaneMEConfig / BootGuardValidateME on a firmware image whose
   manifests have the stated version / SVNs / key manifest id *)
Inductive pobs : Type :=
| OHfsts1 (r : option Z)
| OHfsts6 (r : option Z)
| OSane (strict : bool) (v : Z) (r : verd)
| OValidate (v bpmsvn kmsvn kmid : Z) (r : verd)
| OTestSane (strict : bool) (v : Z) (r : verd)
| OTestValidate (v bpmsvn kmsvn kmid : Z) (r : verd).

Inductive case : Type :=
(* a FIT range/presence check on package state (fitPointer, fitHeaders); [mem]: the size
   fields of the ACM headers in physical memory (address of the field -> value) *)
| CFit (k : fitchk) (fitptr : Z) (tbl : list fent) (mem : physmem) (r : verd)
| CHasPolicy (txtmode : Z) (tbl : list fent) (r : verd)
| CPolicyTXT (rd : option Z) (tbl : list fent) (r : verd)
(* FITVectorIsSet: pointer at 0xFFFFFFC0 (None: unreadable); fitPointer afterwards *)
| CFitVec (p : option Z) (r : verd)
(* HasFIT: fitPointer, Size field of entry 0, readability of header / table; #headers afterwards *)
| CHasFIT (fitptr n : Z) (rd1 rd2 : bool) (r : verd)
(* TXT register images *)
| CHeap (hb hs sb ss mj : Z) (r : verd)
| CDpr (dpr hb hs sb ss : Z) (r : verd)
| CSmrr (bdw : bool) (pbmsr pmmsr tb tlraw : Z) (r : verd)
(* NV indices *)
| CNVAttr (mask want opt : Z) (r : bool)
| CNVIdx20 (which : Z) (blob : list Z) (r : verd)
| CNVIdx12 (which : Z) (p1 p2 size attrs : Z) (rst wst wd : bool) (r : verd)
| CAuxHash (blob : list Z) (r : verd)
| CLcp1 (version hashalg ptype sinitmin polctrl maxsinit : Z) (hashzero : bool) (r : verd)
| CLcp2 (preset version hashalg ptype hmask smask : Z) (r : verd)
(* PSIndexHasValidLCP ([po] = false) / POIndexHasValidLCP on a platform: TPM version, the NV public
   area of the index, the bytes stored in the index ([None]: cannot be read), PreSet.LCPHash *)
| CLcpIdx (po : bool) (tpm : Z) (pub : nvst) (data : option (list Z)) (preset : Z) (r : verd)
(* SINITACMcomplyTPMSpec: capabilities of the SINIT ACM, of a module stored behind it *)
| CSinitTPM (caps1 : Z) (caps2 : option Z) (tpm : Z) (present : bool) (r : verd)
(* Boot Guard / ME *)
| CSaneME (strict : bool) (v hfsts6 msr : Z) (r : verd)
| CSaneMEAll (strict : bool) (v msr base : Z) (rs : list bool)
| CValidateME (v hfsts6 bpmsvn kmsvn kmid : Z) (r : verd)
(* one platform (visible PCI devices in enumeration order, enumeration error, MSR 13Ah) and
   what the code made of it *)
| CPlat (devs : list pcidev) (ee : bool) (msr : Z) (obs : list pobs)
| CBpmCrypto (v nse : Z) (algs : list Z) (lsize sigalg : Z) (r : verd)
| CKmCrypto (v a1 : Z) (algs : list Z) (r : verd)
| CSaneBpm (strict : bool) (v nse flags pbet base0 vtdbar : Z) (txte : option Z) (nseg : Z) (r : verd)
(* single-register verdicts: selector and arguments *)
| CBits (k : Z) (args : list Z) (r : verd).

Definition fit_model (k : fitchk) (fitptr : Z) (tbl : list fent) (mem : physmem) : verd :=
  match k with
  | KNoIBBOverlap => no_ibb_overlap (dsz mem) tbl
  | KNoACMOverlap => no_acm_overlap (dsz mem) tbl
  | KCoversRV => ibb_covers_rv (dsz mem) tbl
  | KCoversFV => ibb_covers_fv (dsz mem) tbl
  | KCoversFIT => ibb_covers_fit (dsz mem) fitptr tbl
  | KACMBelow4G => acm_below_4g (dsz mem) tbl
  | KHasMicrocode => has_type T_MICROCODE tbl
  | KHasACM => has_type T_SACM tbl
  | KHasIBB => has_type T_IBB tbl
  end.

Definition arg (l : list Z) (i : nat) : Z := nth i l 0.

Definition bits_model (k : Z) (a : list Z) : verd :=
  if k =? 0 then ibb_measured (arg a 0)
  else if k =? 1 then ibb_trusted (arg a 0)
  else if k =? 2 then debug_locked (arg a 0) (arg a 1)
  else if k =? 3 then valid_txt_register (arg a 0) (arg a 1) (arg a 2)
  else if k =? 4 then no_sinit_errors (arg a 0)
  else if k =? 5 then dpr_locked (arg a 0)
  else if k =? 6 then biosdata_valid (arg a 0) (arg a 1) (arg a 2)
  else if k =? 7 then weybridge_or_later (arg a 0)
  else if k =? 8 then txt_not_disabled (arg a 0)
  else if k =? 9 then ia32_feature_ctrl (arg a 0)
  else VPanic.

Definition optZ_eqb (a b : option Z) : bool :=
  match a, b with
  | Some x, Some y => x =? y
  | None, None => true
  | _, _ => false
  end.

Definition check_pobs (devs : list pcidev) (ee : bool) (msr : Z) (o : pobs) : bool :=
  match o with
  | OHfsts1 r => optZ_eqb r (get_hfsts1 devs ee)
  | OHfsts6 r => optZ_eqb r (get_hfsts6 devs ee)
  | OSane st v r => verd_eqb r (sane_me_plat st v devs ee msr)
  | OValidate v b k i r => verd_eqb r (validate_me_plat v devs ee b k i)
  | OTestSane st v r => verd_eqb r (test_sane_me_plat st v devs ee msr)
  | OTestValidate v b k i r => verd_eqb r (test_validate_me_plat v devs ee b k i)
  end.

Definition check (c : case) : bool :=
  match c with
  | CFit k p t m r => verd_eqb r (fit_model k p t m)
  | CHasPolicy m t r => verd_eqb r (has_bios_policy m t)
  | CPolicyTXT rd t r => verd_eqb r (policy_allows_txt rd t)
  | CFitVec p r => verd_eqb r (fit_vector_is_set p)
  | CHasFIT p n rd1 rd2 r => verd_eqb r (has_fit p n rd1 rd2)
  | CHeap hb hs sb ss mj r => verd_eqb r (heap_valid hb hs sb ss mj)
  | CDpr d hb hs sb ss r => verd_eqb r (memory_is_dpr d hb hs sb ss)
  | CSmrr bdw pb pm tb tl r => verd_eqb r (valid_smrr pb pm tb (tseg_limit bdw tl))
  | CNVAttr m w o r => Bool.eqb r (nvattr m w o)
  | CNVIdx20 w b r => verd_eqb r (nv_index_config20 w b)
  | CNVIdx12 w p1 p2 s a rst wst wd r => verd_eqb r (nv_index_config12 w p1 p2 s a rst wst wd)
  | CAuxHash b r => verd_eqb r (aux_index_hash b)
  | CLcp1 ve h t s pc ms hz r => verd_eqb r (lcp_valid1 ve h t s pc ms hz)
  | CLcp2 pr ve h t hm sm r => verd_eqb r (lcp_valid2 pr ve h t hm sm)
  | CLcpIdx po tpm pub data pr r => verd_eqb r (lcp_index po tpm pub data pr)
  | CSinitTPM c1 c2 t pr r => verd_eqb r (sinit_tpm_spec c1 c2 t pr)
  | CSaneME st v h m r => verd_eqb r (sane_me_raw st v h m)
  | CSaneMEAll st v m base rs => list_eqb Bool.eqb rs (sane_me_all st v m base)
  | CValidateME v h b k i r => verd_eqb r (validate_me v (decode_hfsts6 h) b k i)
  | CPlat devs ee msr obs => forallb (check_pobs devs ee msr) obs
  | CBpmCrypto v n al ls sa r => verd_eqb r (bpm_crypto v n al ls sa)
  | CKmCrypto v a al r => verd_eqb r (km_crypto v a al)
  | CSaneBpm st v n fl pb b0 vt tx ns r =>
      verd_eqb r ((if st then strict_sane_bpm else sane_bpm) v n fl pb b0 vt tx ns)
  | CBits k a r => verd_eqb r (bits_model k a)
  end.

Definition mismatches := mismatches_by check.
