(** Case language of the C13 correspondence check.  The Go harness
    (harness/cmd/c13) writes [coq/gen/Cases_C13_*.v] with values of [case] holding
    the inputs it gave to the implementation AND what the implementation returned;
    [check] re-runs the model of Model/EventLogAlign.v. *)
From CSS Require Import Lib.Base Lib.Cases Model.EventLog Model.EventLogAlign.

(** one simulated boot (shared by many cases; defined once in the shard header) *)
Record boot := mkBoot {
  b_isz : Z;                       (* size of the BIOS image *)
  b_regs : bool;                   (* TXT public registers present in the state *)
  b_cmds : list (bool * scmd);     (* tpm.CommandLog *)
  b_evlog : list sim_ev            (* tpm.EventLog *)
}.

(** observed result entry: index of the recorded event in the ORIGINAL log, id of the
    simulated event, id of the measurement, status (Go constants 1..4) *)
Definition oentry : Type := (option Z * option Z * option Z * Z)%type.

Record observed := mkObs {
  o_entries : list oentry;
  o_reg : option Z;                      (* corrected ACM_POLICY_STATUS, if any *)
  o_issues : list (Z * Z);               (* (kind, Index or -1) *)
  o_combined : obs (list (bool * Z))     (* CombineAsEventLog: (from simulation?, sim id / recorded index) *)
}.

Inductive case : Type :=
(* ReproduceEventLog(boot, recorded, alg, settings) under GOMAXPROCS = P.
   [oracle]: the disable bitmaps the search left (read off the result, or from the
   search hook when there is no result); [hp]: (measurement id, value of the first 8
   bytes, digest of the measurement with these 8 bytes) computed with Go crypto *)
| CRepro (b : boot) (recorded : option (list event)) (alg : Z) (st : settings) (P : Z)
         (oracle : list bool * list bool) (hp : list (Z * Z * list Z)) (r : obs observed)
(* eventAndMeasurementsDistance on arbitrary bitmaps (hook) *)
| CDist (cs : list (bool * sim_ev)) (es : list (bool * event)) (r : obs Z)
(* bruteForceAlignedEventLogs (hook): DisabledEventsMaxDistance, returned bitmaps and distance *)
| CSearch (cs : list sim_ev) (es : list event) (maxdist : Z) (de dc : list bool) (dist : Z).

Definition hp_of (t : list (Z * Z * list Z)) (m : meas) (v : Z) : list Z :=
  match find (fun '(i, r, _) => (i =? m_id m) && (r =? v)) t with
  | Some (_, _, d) => d
  | None => []   (* not a digest of any algorithm: never equal to a recorded digest *)
  end.

Definition digest_eqb (a b : digest) : bool := (d_alg a =? d_alg b) && zlist_eqb (d_bytes a) (d_bytes b).

Definition opt_eqb {A} (eqb : A -> A -> bool) (a b : option A) : bool :=
  match a, b with
  | None, None => true
  | Some x, Some y => eqb x y
  | _, _ => false
  end.

Definition event_eqb (a b : event) : bool :=
  (ev_pcr a =? ev_pcr b) && (ev_type a =? ev_type b) && zlist_eqb (ev_data a) (ev_data b)
  && opt_eqb digest_eqb (ev_digest a) (ev_digest b).

Definition status_code (s : status) : Z :=
  match s with StMatch => 1 | StMismatch => 2 | StUnexpected => 3 | StMissing => 4 end.

Definition issue_code (i : issue) : Z * Z :=
  match i with
  | IUnexpected idx => (1, idx)
  | IMissing => (2, -1)
  | IRepairFail => (3, -1)
  | IRepaired => (4, -1)
  | IMismatch idx => (5, idx)
  end.

Definition entry_ok (log : list event) (o : oentry) (r : rentry) : bool :=
  let '(oe, oc, om, os) := o in
  match oe, re_exp r with
  | None, None => true
  | Some i, Some e =>
      (0 <=? i) && match nth_error log (Z.to_nat i) with Some e' => event_eqb e e' | None => false end
  | _, _ => false
  end
  && opt_eqb Z.eqb oc (option_map s_id (re_calc r))
  && opt_eqb Z.eqb om (option_map m_id (re_meas r))
  && (os =? status_code (re_status r)).

Definition centry_ok (log : list event) (o : bool * Z) (c : centry) : bool :=
  match o, c with
  | (true, i), CSim s => i =? s_id s
  | (false, i), CRec e =>
      (0 <=? i) && match nth_error log (Z.to_nat i) with Some e' => event_eqb e e' | None => false end
  | _, _ => false
  end.

Fixpoint all2 {A B} (f : A -> B -> bool) (a : list A) (b : list B) : bool :=
  match a, b with
  | [], [] => true
  | x :: a', y :: b' => f x y && all2 f a' b'
  | _, _ => false
  end.

Definition obs_match2 {A B} (f : A -> B -> bool) (o : obs A) (m : outcome B) : bool :=
  match o, m with
  | OOk a, Ok b => f a b
  | OErr, Err _ => true
  | OPanic, Panic => true
  | _, _ => false
  end.

Definition pair_eqb (a b : Z * Z) : bool := (fst a =? fst b) && (snd a =? snd b).

Definition observed_ok (log : list event) (o : observed) (m : result) : bool :=
  let '(rs, iss, upd) := m in
  all2 (entry_ok log) (o_entries o) rs
  && opt_eqb Z.eqb (o_reg o) upd
  && list_eqb pair_eqb (o_issues o) (map issue_code iss)
  && obs_match2 (all2 (centry_ok log)) (o_combined o) (combine_log rs).

Definition result_match (log : list event) (o : obs observed) (m : outcome result) : bool :=
  match o, m with
  | OOk a, Ok b => observed_ok log a b
  | OErr, Err _ => true
  | OPanic, Panic => true
  | _, _ => false
  end.

(** what the search may return: bitmaps of the right lengths, balanced, the reported
    distance is the distance of the bitmaps, at most |amount difference| +
    DisabledEventsMaxDistance recorded events disabled, nothing disabled when the
    undisturbed pairing has distance 0, and - its optimality - the result is one of
    [search_results]: of minimal distance in the space the phases enumerate *)
Definition search_ok (cs : list sim_ev) (es : list event) (maxdist : Z) (de dc : list bool) (dist : Z) : bool :=
  (length de =? length es)%nat && (length dc =? length cs)%nat
  && (length es - count_true de =? length cs - count_true dc)%nat
  && match distance (flag dc cs) (flag de es) 0 with Ok d => d =? dist | _ => false end
  && (Z.of_nat (count_true de) <=? Z.max 0 (Z.of_nat (length es) - Z.of_nat (length cs)) + maxdist)
  && (if (length es =? length cs)%nat
      then match distance (flag (all_false cs) cs) (flag (all_false es) es) 0 with
           | Ok 0 => (count_true de =? 0)%nat && (count_true dc =? 0)%nat && (dist =? 0)
           | _ => negb (dist =? 0)
           end
      else negb (dist =? 0))
  (* ... and it is one of the results of the set-level search: bitmaps of the search space
     whose distance is minimal there *)
  && existsb (fun r => (fst r =? dist) && list_eqb Bool.eqb (fst (snd r)) de && list_eqb Bool.eqb (snd (snd r)) dc)
             (search_results es cs maxdist).

(** the bitmaps are the ones of a result of the set-level search *)
Definition search_member (es : list event) (cs : list sim_ev) (maxdist : Z) (o : bitmaps) : bool :=
  existsb (fun r => list_eqb Bool.eqb (fst (snd r)) (fst o) && list_eqb Bool.eqb (snd (snd r)) (snd o))
          (search_results es cs maxdist).

Definition check (c : case) : bool :=
  match c with
  | CRepro b recorded alg st P oracle hp r =>
      result_match (match recorded with Some l => l | None => [] end) r
        (reproduce (hp_of hp) P (b_isz b) (b_regs b) (b_cmds b) (b_evlog b) recorded alg st oracle)
      (* a returned result was built from bitmaps the search may return: optimal in its space *)
      && match r, recorded with
         | OOk _, Some log =>
             match sim_align (b_cmds b) (b_evlog b) 0 alg, filterEvents log 0 alg with
             | Ok sims, Ok es => search_member es (map snd sims) (st_max_disabled st) oracle
             | _, _ => true
             end
         | _, _ => true
         end
  | CDist cs es r => obs_match Z.eqb r (distance cs es 0)
  | CSearch cs es maxdist de dc dist => search_ok cs es maxdist de dc dist
  end.

Definition mismatches := mismatches_by check.
