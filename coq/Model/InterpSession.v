(** Sessions: SEVERAL calls on ONE [BootProcess].

    Model/Interp.v and Model/InterpHeap.v describe one call pattern: a fresh
    process driven by [Finish], or by a bounded number of [NextStep] calls
    that stops at the first [false].  A [BootProcess] is an object with a
    life: a caller may single-step it for a while and then call [Finish], call
    [Finish] again, go on calling [NextStep] after it returned [false]
    (each call still increments the uint [StepIndex]), or give the state the
    next flow to run ([State.SetFlow], the very call that started the first
    run) and continue — all with the [Log] that is already there.  Nothing
    new is needed for the machine itself — [next_step] and [run] are functions
    of ANY state and ANY log — but the sequence of calls is a program of its
    own:

      [ONext n]     n calls of [NextStep], whatever they return
      [OFinish]     [Finish] ([run] with the fuel given to the session)
      [OSetFlow g]  [State.SetFlow(g)] between two calls

    [session] is the value-level machine, [session_h] the slice-level one
    (Model/InterpHeap.v: the log keeps the slices the steps returned).  Both
    return the trace of the session: after every operation the length of the
    log and whether the end of the flow was reported ([ONext]: the last call
    returned [false]; [OFinish]: the loop ended; [OSetFlow]: no).

    The backing array of [BootProcess.Log] itself is not modelled: [NextStep]
    does [process.Log = append(process.Log, step)], whose value is
    [log ++ [e]] whichever array it lands in. *)
From CSS Require Import Lib.Base Model.Interp Model.InterpHeap.

Inductive op :=
| ONext (n : nat)
| OFinish
| OSetFlow (g : Z).

(** [n] calls of [NextStep], whatever they return; the flag: the last call
    returned [false] *)
Fixpoint calls (n : nat) (fam : family) (st : mstate) (log : list entry) (ended : bool)
  : outcome (mstate * list entry * bool) :=
  match n with
  | O => Ok (st, log, ended)
  | S k =>
      match next_step fam st log with
      | Ok (st', log', more) => calls k fam st' log' (negb more)
      | o => o
      end
  end.

Definition do_op (fuel : nat) (fam : family) (o : op) (st : mstate) (log : list entry)
  : outcome (mstate * list entry * bool) :=
  match o with
  | ONext n => calls n fam st log false
  | OFinish => run fuel fam st log
  | OSetFlow g => Ok (set_flow g st, log, false)
  end.

Definition trace : Type := list (nat * bool).

Fixpoint session (fuel : nat) (fam : family) (ops : list op) (st : mstate) (log : list entry) (tr : trace)
  : outcome (mstate * list entry * trace) :=
  match ops with
  | [] => Ok (st, log, tr)
  | o :: rest =>
      match do_op fuel fam o st log with
      | Ok (st', log', d) => session fuel fam rest st' log' (tr ++ [(length log', d)])
      | Err e => Err e
      | Panic => Panic
      | OutOfFuel => OutOfFuel
      end
  end.

Section Grow.
Variable grow : nat -> nat -> nat.

Fixpoint calls_h (n : nat) (fam : hfamily) (st : mstate) (h : heap) (log : list hentry) (ended : bool)
  : outcome (mstate * heap * list hentry * bool) :=
  match n with
  | O => Ok (st, h, log, ended)
  | S k =>
      match next_step_h grow fam st h log with
      | Ok (st', h', log', more) => calls_h k fam st' h' log' (negb more)
      | o => o
      end
  end.

Definition do_op_h (fuel : nat) (fam : hfamily) (o : op) (st : mstate) (h : heap) (log : list hentry)
  : outcome (mstate * heap * list hentry * bool) :=
  match o with
  | ONext n => calls_h n fam st h log false
  | OFinish => run_h grow fuel fam st h log
  | OSetFlow g => Ok (set_flow g st, h, log, false)
  end.

Fixpoint session_h (fuel : nat) (fam : hfamily) (ops : list op) (st : mstate) (h : heap)
  (log : list hentry) (tr : trace) : outcome (mstate * heap * list hentry * trace) :=
  match ops with
  | [] => Ok (st, h, log, tr)
  | o :: rest =>
      match do_op_h fuel fam o st h log with
      | Ok (st', h', log', d) => session_h fuel fam rest st' h' log' (tr ++ [(length log', d)])
      | Err e => Err e
      | Panic => Panic
      | OutOfFuel => OutOfFuel
      end
  end.

End Grow.

(** does the session call [Finish]? (then the family has to be acyclic for the
    fuel [fuel_bound] to stand for the unbounded loop) *)
Definition has_finish (ops : list op) : bool :=
  existsb (fun o => match o with OFinish => true | _ => false end) ops.
