(** Executable model of github.com/linuxboot/fiano/pkg/bytes/range.go (the version
    pinned by /repo's go.mod): Range.Intersect / End / Exclude, MergeRanges with
    mergeDistance 0, Ranges.Sort / SortAndMerge.  All arithmetic is uint64:
    every sum and difference goes through [wrap64].  No proofs here. *)
From CSS Require Import Lib.Base.

Record range := mkR { roff : Z; rlen : Z }.

(** [Range.End]: Offset + Length in uint64. *)
Definition rend (r : range) : Z := wrap64 (roff r + rlen r).

Definition range_eqb (a b : range) : bool := (roff a =? roff b) && (rlen a =? rlen b).

(** [Range.Intersect]. *)
Definition intersect (r c : range) : bool :=
  if (rlen r =? 0) || (rlen c =? 0) then false
  else if rend r <=? roff c then false
  else if rend c <=? roff r then false
  else true.

(** [Ranges.Sort] is sort.Slice by Offset only, i.e. unstable.  The executable
    model is the stable insertion sort; the theorems about merging are stated
    for EVERY permutation of the input that is sorted by offset
    (Proofs/Ranges.v), and [merge_sorted_perm_indep] shows that, without
    uint64 overflow, the merged result does not depend on which one is chosen. *)
Fixpoint ins_off (x : range) (l : list range) : list range :=
  match l with
  | [] => [x]
  | y :: t => if roff x <=? roff y then x :: y :: t else y :: ins_off x t
  end.
Definition sort_off (l : list range) : list range := fold_right ins_off [] l.

(** [MergeRanges(in, 0)] on a list with at least one element: [entry] is the
    range being grown. *)
Fixpoint merge_go (entry : range) (l : list range) : list range :=
  match l with
  | [] => [entry]
  | n :: t =>
      if roff n <=? rend entry   (* entry.Offset+entry.Length+0 >= nextEntry.Offset *)
      then merge_go (mkR (roff entry) (wrap64 (Z.max (rend n) (rend entry) - roff entry))) t
      else entry :: merge_go n t
  end.

(** [MergeRanges(in, 0)]: lists shorter than two are returned unchanged. *)
Definition merge_ranges (l : list range) : list range :=
  match l with
  | [] => []
  | e :: t => merge_go e t
  end.

(** [Ranges.SortAndMerge] (len < 2: unchanged, which is what the two functions
    below compute on such lists as well). *)
Definition ranges_sm (l : list range) : list range := merge_ranges (sort_off l).

(** Loop of [Range.Exclude] over the sorted-merged exclusions:
    [cs] = curStart, [ce] = curEnd. *)
Fixpoint excl_go (cs ce : Z) (tes : list range) : list range :=
  match tes with
  | [] => [mkR cs (wrap64 (ce - cs))]
  | te :: t =>
      let es := roff te in
      let ee := rend te in
      if ee <=? cs then excl_go cs ce t
      else if ce <=? es then excl_go cs ce t
      else
        let pre := if cs <? es then [mkR cs (wrap64 (es - cs))] else [] in
        if ce <=? ee then pre else pre ++ excl_go ee ce t
  end.

(** [Range.Exclude]. *)
Definition range_exclude (r : range) (tes : list range) : list range :=
  excl_go (roff r) (rend r) (ranges_sm tes).
