(** Slice-level executable model of the validators of
    /repo/pkg/bootflow/bootengine/validator: the same control flow as
    Model/Validators.v, but range slices are Go slices -- windows
    (array, offset, len, cap) into backing arrays kept in a heap -- so that the
    IN-PLACE effects of the code on the log it validates are part of the model:

    - fiano Ranges.SortAndMerge sorts the receiver's array in place and re-allocates
      (MergeRanges builds a fresh slice) only when there are at least two ranges;
    - References.SortAndMerge calls it on every reference, then grows the first
      reference of each group with
      [append(curRef.Ranges[:n:n], ref.Ranges...)]: always in a fresh array (the
      full slice expression leaves no capacity), never in the caller's; and
      sorts+merges the grown slice when the group is flushed;
    - fiano Range.Exclude sorts the array of the exclusion list it is given.

    The validators feed slices that still belong to the log (MeasuredData
    references, ActorCode references) into these functions.  A range holder of the
    validator is therefore either [Alias s] (a slice header whose array is visible
    through the log) or [Own l] (an array nobody else can observe: results of
    MergeRanges, of an address mapper, of a re-allocating append, the deep copy
    prevMeasured; for those only the value matters).

    The output (issue lists) is computed along the way, reading every slice at the
    moment the code reads it; [hvap]/[hvfc] return the heap afterwards as well.
    sort.Slice over ranges: insertion sort (stable) up to 12 elements, which is
    what [sort_off] computes.  No proofs here. *)
From CSS Require Import Lib.Base Model.Ranges Model.Refs Model.Validators.

(** ** Heap, slices *)

Definition heap := list (list range).

(** [sl_cap] counts from [sl_off], as Go's cap() does. *)
Record sl := mkSl { sl_arr : nat; sl_off : nat; sl_len : nat; sl_cap : nat }.

Definition rd (h : heap) (s : sl) : list range :=
  firstn (sl_len s) (skipn (sl_off s) (nth (sl_arr s) h [])).

Fixpoint upd_nth {A} (n : nat) (f : A -> A) (l : list A) : list A :=
  match l, n with
  | [], _ => []
  | x :: t, O => f x :: t
  | x :: t, S k => x :: upd_nth k f t
  end.

Definition splice (off : nat) (vals arr : list range) : list range :=
  firstn off arr ++ vals ++ skipn (off + length vals) arr.

(** store [vals] at index [off] of array [a] *)
Definition wr (h : heap) (a off : nat) (vals : list range) : heap := upd_nth a (splice off vals) h.

(** ** Range holders *)

Inductive rs := Alias (s : sl) | Own (l : list range).

Definition val (h : heap) (x : rs) : list range :=
  match x with Alias s => rd h s | Own l => l end.
Definition rs_len (x : rs) : nat :=
  match x with Alias s => sl_len s | Own l => length l end.

(** [h_size]: Size() of the artifact (= zlen (acontent (h_art r)) for the
    artifacts of Model/Refs.v; kept beside the artifact so that evaluating the
    model does not walk over the content list at every Resolve) *)
Record href := mkH { h_art : art; h_size : Z; h_map : mapper; h_rs : rs }.
Definition set_rs (r : href) (x : rs) : href := mkH (h_art r) (h_size r) (h_map r) x.
Definition hval (h : heap) (r : href) : ref := mkRef (h_art r) (h_map r) (val h (h_rs r)).

(** [Ranges.SortAndMerge] on a holder. *)
Definition rsm (h : heap) (x : rs) : heap * rs :=
  match x with
  | Own l => (h, Own (ranges_sm l))
  | Alias s =>
      if (sl_len s <? 2)%nat then (h, x)
      else let v := sort_off (rd h s) in (wr h (sl_arr s) (sl_off s) v, Own (merge_ranges v))
  end.

(** [Ranges.Sort] as [Range.Exclude] applies it to its argument (len >= 2 only). *)
Definition sort_inplace (h : heap) (x : rs) : heap :=
  match x with
  | Own _ => h
  | Alias s => if (sl_len s <? 2)%nat then h else wr h (sl_arr s) (sl_off s) (sort_off (rd h s))
  end.

(** [append(x[:len(x):len(x)], vals...)]: with nothing to append the same slice
    (its capacity clipped, which nothing looks at any more), otherwise a new array *)
Definition app_rs (h : heap) (x : rs) (vals : list range) : rs :=
  match vals with
  | [] => x
  | _ => Own (val h x ++ vals)
  end.

(** ** References.SortAndMerge *)

(** the comparator looks at the artifacts only *)
Definition hkey (r : href) : ref := mkRef (h_art r) (h_map r) [].
Definition hcmp (a b : href) : cmpres := cmp_ref (hkey a) (hkey b).

Fixpoint hconflict (s : list href) : bool :=
  match s with
  | [] => false
  | a :: t => existsb (fun b => is_panic (hcmp a b)) t || hconflict t
  end.
Fixpoint hsorted (s : list href) : bool :=
  match s with
  | a :: ((b :: _) as t) => negb (is_lt (hcmp b a)) && hsorted t
  | _ => true
  end.
Fixpoint hins (x : href) (l : list href) : list href :=
  match l with
  | [] => [x]
  | y :: t => if is_lt (hcmp y x) then y :: hins x t else x :: y :: t
  end.
Definition hsort (s : list href) : list href := fold_right hins [] s.

(** [for idx := range s { s[idx].Ranges.SortAndMerge() }] (s dereferenced) *)
Fixpoint rsm_all (h : heap) (l : list href) : heap * list href :=
  match l with
  | [] => (h, [])
  | r :: t =>
      let '(h1, x) := rsm h (h_rs r) in
      let '(h2, t') := rsm_all h1 t in
      (h2, set_rs r x :: t')
  end.

(** the grouping loop; [cur] = curRef (holding a real reference) *)
Fixpoint hloop (h : heap) (cur : href) (l : list href) : heap * list href :=
  match l with
  | [] => let '(h1, x) := rsm h (h_rs cur) in (h1, [set_rs cur x])
  | r :: t =>
      if art_eqb (h_art r) (h_art cur) && mapper_eqb (h_map r) (h_map cur)
      then hloop h (set_rs cur (app_rs h (h_rs cur) (val h (h_rs r)))) t
      else
        match rs_len (h_rs cur) with
        | O => hloop h r t                           (* an empty curRef is dropped *)
        | S _ =>
            let '(h1, x) := rsm h (h_rs cur) in
            let '(h2, out) := hloop h1 r t in
            (h2, set_rs cur x :: out)
        end
  end.

Definition fail_of {A B} (o : outcome A) : outcome B :=
  match o with Ok _ => Err 2 | Err c => Err c | Panic => Panic | OutOfFuel => OutOfFuel end.

(** [References.SortAndMerge]; the order of sort.Slice as in Model/Validators.v [sm] *)
Definition hsm (h : heap) (s : list href) : heap * outcome (list href) :=
  match s with
  | [] => (h, Ok [])
  | _ =>
      if hconflict s then (h, Panic)
      else
        let s' := hsort s in
        if hsorted s' then
          let '(h1, s1) := rsm_all h s' in
          match s1 with
          | [] => (h1, Ok [])
          | r :: t => let '(h2, out) := hloop h1 r t in (h2, Ok out)
          end
        else (h, Err 1)
  end.

(** [References.Resolve] (no heap effect: the mappers only read their arguments
    and return a new slice) *)
Fixpoint hresolve (h : heap) (s : list href) : list href * bool :=
  match s with
  | [] => ([], false)
  | r :: t =>
      if is_nil (h_map r) then let '(t', e) := hresolve h t in (r :: t', e)
      else
        match resolve (h_map r) (h_size r) (val h (h_rs r)) with
        | Ok rs => let '(t', e) := hresolve h t in (mkH (h_art r) (h_size r) MNil (Own rs) :: t', e)
        | _ => (r :: t, true)
        end
  end.

(** ** The log *)

(** a reference of the log: artifact, its Size(), mapper, the slice header of its Ranges *)
Record lref := mkL { l_art : art; l_size : Z; l_map : mapper; l_sl : sl }.
Record hstep := mkHS {
  hs_actor : option Z;
  hs_code : option (list lref);
  hs_meas : list lref;
  hs_issues : list Z
}.

Definition alias (r : lref) : href := mkH (l_art r) (l_size r) (l_map r) (Alias (l_sl r)).

(** what a reader of the log sees *)
Definition val_lref (h : heap) (r : lref) : ref := mkRef (l_art r) (l_map r) (rd h (l_sl r)).
Definition val_step (h : heap) (st : hstep) : step :=
  mkStep (hs_actor st) (option_map (map (val_lref h)) (hs_code st)) (map (val_lref h) (hs_meas st)) (hs_issues st).
Definition val_log (h : heap) (l : list hstep) : list step := map (val_step h) l.

(** all slice headers of the log *)
Definition step_windows (st : hstep) : list sl :=
  map l_sl (hs_meas st) ++ match hs_code st with Some c => map l_sl c | None => [] end.
Definition windows (l : list hstep) : list sl := flat_map step_windows l.

(** ** ValidatorActorsAreProtected.Validate *)

Definition own_copy (h : heap) (r : href) : href := set_rs r (Own (val h (h_rs r))).

(** the part after [measured.SortAndMerge()]; [prev] = prevMeasured (deep copy),
    [cur] = measured *)
Definition hvap_actor (h : heap) (idx : Z) (prev cur : list href) (pa : option Z) (st : hstep)
  : heap * outcome (list vissue * option Z) :=
  match hs_actor st with
  | None => (h, Ok ([], pa))
  | Some a =>
      if opt_eqb (Some a) pa then (h, Ok ([], pa))
      else
        match hs_code st with
        | None => (h, Ok ([], Some a))
        | Some code =>
            (* actorRefs := step.ActorCode.References.Exclude(): a copy of the
               reference structs, sorted and merged -- on the log's arrays *)
            let '(h1, o1) := match code with [] => (h, Ok []) | _ => hsm h (map alias code) end in
            match o1 with
            | Ok arefs0 =>
                let '(arefs1, e2) := hresolve h1 arefs0 in
                let i2 := if e2 then [mkVI idx 2 [] []] else [] in
                (* nonMeasured := actorRefs.Exclude(prevMeasured...) *)
                match arefs1 with
                | [] => (h1, Ok (i2, Some a))
                | _ =>
                    let '(h2, o2) := hsm h1 arefs1 in
                    match o2 with
                    | Ok s0 =>
                        let '(h3, o3) := hsm h2 prev in
                        match o3 with
                        | Ok s1 =>
                            match excl_walk (map (hval h3) s0) (map (hval h3) s1) with
                            | Ok nm =>
                                if has_bytes nm then
                                  let pn := refs_resolve nm in
                                  let i3 := if snd pn then [mkVI idx 3 [] []] else [] in
                                  (h3, Ok (i2 ++ i3 ++ [mkVI idx 4 (fst pn) (map (hval h3) cur)], Some a))
                                else (h3, Ok (i2, Some a))
                            | o => (h3, fail_of o)
                            end
                        | o => (h3, fail_of o)
                        end
                    | o => (h2, fail_of o)
                    end
                end
            | o => (h1, fail_of o)
            end
        end
  end.

Fixpoint hvap_go (h : heap) (idx : Z) (measured : list href) (pa : option Z) (l : list hstep)
  : heap * outcome (list vissue) :=
  match l with
  | [] => (h, Ok [])
  | st :: t =>
      let prev := map (own_copy h) measured in
      let pm := hresolve h (map alias (hs_meas st)) in
      let i1 := if snd pm then [mkVI idx 1 [] []] else [] in
      let '(h1, o1) := hsm h (measured ++ fst pm) in
      match o1 with
      | Ok cur =>
          let '(h2, o2) := hvap_actor h1 idx prev cur pa st in
          match o2 with
          | Ok (iss, pa') =>
              let '(h3, o3) := hvap_go h2 (idx + 1) cur pa' t in
              match o3 with
              | Ok rest => (h3, Ok (i1 ++ iss ++ rest))
              | o => (h3, o)
              end
          | o => (h2, fail_of o)
          end
      | o => (h1, fail_of o)
      end
  end.

Definition hvap (h : heap) (l : list hstep) : heap * outcome (list vissue) := hvap_go h 0 [] None l.

(** ** ValidatorFinalCoverageIsComplete.Validate *)

Fixpoint hvfc_measured (h : heap) (measured : list href) (l : list hstep) : heap * outcome (list href) :=
  match l with
  | [] => (h, Ok measured)
  | st :: t =>
      let '(h1, o) := hsm h (measured ++ fst (hresolve h (map alias (hs_meas st)))) in
      match o with
      | Ok m => hvfc_measured h1 m t
      | _ => (h1, o)
      end
  end.

(** the heap effect of the two-pointer walk of References.Exclude: Range.Exclude
    sorts the array of r1.Ranges (once per range of r0) *)
Fixpoint excl_fx (h : heap) (s0 : list ref) : list href -> heap :=
  match s0 with
  | [] => fun _ => h
  | r0 :: t0 =>
      fix inner (s1 : list href) : heap :=
        match s1 with
        | [] => h
        | r1 :: t1 =>
            match cmp_ref r0 (hkey r1) with
            | CPanic => h
            | CLt => excl_fx h t0 (r1 :: t1)
            | CGt => inner t1
            | CEq => excl_fx (match rranges r0 with [] => h | _ :: _ => sort_inplace h (h_rs r1) end) t0 t1
            end
        end
  end.

Definition hvfc (h : heap) (files : outcome (list ref)) (l : list hstep) : heap * outcome (list vissue) :=
  match l with
  | [] => (h, Ok [])
  | _ =>
      let last := zlen l - 1 in
      let '(h1, o) := hvfc_measured h [] l in
      match o with
      | Ok measured =>
          match files with
          | Ok [] => (h1, Ok [])                 (* Exclude of nothing: nil, no issue *)
          | Ok frefs =>
              (* data.References.Resolve(); data.References.Exclude(measured...): the
                 files are the code's own slices; the copy of [measured] shares its
                 arrays *)
              match sm (resolved frefs) with
              | Ok s0 =>
                  let '(h2, o2) := hsm h1 measured in
                  match o2 with
                  | Ok s1 =>
                      let h3 := excl_fx h2 s0 s1 in
                      match excl_walk s0 (map (hval h2) s1) with
                      | Ok [] => (h3, Ok [])
                      | Ok nm => (h3, Ok [mkVI last 6 (resolved nm) (resolved (map (hval h3) measured))])
                      | o3 => (h2, fail_of o3)
                      end
                  | _ => (h2, fail_of o2)
                  end
              | o1 => (h1, fail_of o1)
              end
          | _ => (h1, Ok [mkVI last 5 [] []])
          end
      | _ => (h1, fail_of o)
      end
  end.

(** ** Sequences of runs over ONE log in ONE memory

    What pcr0tool validate_security (and any other caller of the package) does
    with a bootengine.Log: it prints the merged measurements
    ([state.MeasuredData.References()] followed by [SortAndMerge()]: the
    [Reference] structs are copies, their range arrays are those of the log), then
    hands the log to [validator.All()] -- each validator separately or through
    [Validators.Validate] -- possibly more than once. *)
Inductive pass :=
| PVap                                  (* ValidatorActorsAreProtected{}.Validate *)
| PVfc (files : outcome (list ref))     (* ValidatorFinalCoverageIsComplete{}.Validate; [files]: UEFIFiles(...).Data *)
| PSm                                   (* state.MeasuredData.References() + SortAndMerge() *)
| PAll (files : outcome (list ref)).    (* validator.All().Validate *)

Inductive pres :=
| RIss (o : outcome (list vissue))
| RRefs (o : outcome (list ref))
| RChain (o : outcome (list (vissue + Z * Z))).

Definition all_meas (l : list hstep) : list lref := flat_map hs_meas l.

Definition omap_out {A B} (f : A -> B) (o : outcome A) : outcome B :=
  match o with Ok a => Ok (f a) | Err c => Err c | Panic => Panic | OutOfFuel => OutOfFuel end.

Definition hsm_all (h : heap) (l : list hstep) : heap * outcome (list ref) :=
  let '(h1, o) := hsm h (map alias (all_meas l)) in (h1, omap_out (map (hval h1)) o).

(** [Validators.Validate]: [result = append(result, v.Validate(ctx, s, l)...)] for
    the three validators of [All()] *)
Definition hall (h : heap) (files : outcome (list ref)) (l : list hstep)
  : heap * outcome (list (vissue + Z * Z)) :=
  let '(h1, o1) := hvap h l in
  match o1 with
  | Ok a =>
      let '(h2, o2) := hvfc h1 files l in
      match o2 with
      | Ok b => (h2, Ok (chain a b (vni (val_log h2 l))))
      | o => (h2, fail_of o)
      end
  | o => (h1, fail_of o)
  end.

Definition run_pass (h : heap) (l : list hstep) (p : pass) : heap * pres :=
  match p with
  | PVap => let '(h1, o) := hvap h l in (h1, RIss o)
  | PVfc f => let '(h1, o) := hvfc h f l in (h1, RIss o)
  | PSm => let '(h1, o) := hsm_all h l in (h1, RRefs o)
  | PAll f => let '(h1, o) := hall h f l in (h1, RChain o)
  end.

Fixpoint run_passes (h : heap) (l : list hstep) (ps : list pass) : heap * list pres :=
  match ps with
  | [] => (h, [])
  | p :: t =>
      let '(h1, r) := run_pass h l p in
      let '(h2, rs) := run_passes h1 l t in
      (h2, r :: rs)
  end.

(** what the value-level model says about a pass over the log [l] *)
Definition vpass (l : list step) (p : pass) : pres :=
  match p with
  | PVap => RIss (vap l)
  | PVfc f => RIss (vfc f l)
  | PSm => RRefs (sm_all l)
  | PAll f => RChain (vall f l)
  end.
