(** The boot simulation of Model/BootSim.v over ANY implementation of the TPM
    object: the same actions, steps and flows, but the TPM is a parameter
    ([T], with [texec] = TPMExecute / Reset / DoNotUse_ResetNoInit and
    [talgos] = the SupportedAlgos field).  Executable definitions only.

    Purpose: a boot on a TPM object that served earlier boots.  Model/BootSim.v
    runs on the value-level TPM of Model/TPM.v, where Reset() yields the state
    of NewTPM() by definition.  The Go code recycles the object's buffers
    (tpm.go: re-slice to [:0]; command_init.go: re-slice to the old capacity and
    zero in place), which Model/TPMSlices.v models with explicit backing arrays.
    Instantiated with that buffer-level TPM, [grun_boots] is a session in which
    the PCR bytes of the earlier boots physically remain in the arrays the next
    boot is going to use; Proofs/BootSimSlices.v shows that it is
    indistinguishable from Model/BootSim.v's [run_boots]. *)
From CSS Require Import Lib.Base Model.TPM Model.BootSim.

Section GenSim.
Variable ref : Type.
Variable bytes_of : ref -> outcome (list Z).
Variable H : Z -> list Z -> list Z.

(** the TPM object *)
Variable T : Type.
Variable texec : T -> cmd -> T * outcome unit.
Variable talgos : T -> list Z.
Variable tnew : T.                            (* NewTPM() *)
Variable tset_algos : T -> list Z -> T.       (* tpm.SupportedAlgos = ... *)

Record gsim := mkGSim { g_tpm : T; g_meas : list (mdata ref) }.

Definition gwith_tpm (s : gsim) (t : T) : gsim := mkGSim t (g_meas s).
Definition gadd_meas (s : gsim) (d : mdata ref) : gsim := mkGSim (g_tpm s) (g_meas s ++ [d]).

(** [event_loop] *)
Fixpoint gevent_loop (t : T) (p : Z) (msg : list Z) (ty : Z) (evd : option (list Z))
         (algs : list Z) : T * outcome unit :=
  match algs with
  | [] => (t, Ok tt)
  | a :: rest =>
      let d := H a msg in
      let '(t1, r1) := texec t (Extend p a d) in
      match r1 with
      | Ok _ =>
          let '(t2, r2) := texec t1 (LogAdd p a d ty evd) in
          match r2 with
          | Ok _ => gevent_loop t2 p msg ty evd rest
          | o => (t2, o)
          end
      | o => (t1, o)
      end
  end.

(** [apply_act] *)
Definition gapply_act (s : gsim) (a : tact ref) : gsim * outcome unit :=
  match a with
  | AInit l =>
      let '(t, r) := texec (g_tpm s) (Startup l) in (gwith_tpm s t, r)
  | AEvent p src ty evd =>
      match src with
      | DSErr => (s, Err 1)
      | DSPanic => (s, Panic)
      | DS d =>
          match converted ref bytes_of H d with
          | Ok msg =>
              let '(t, r) := gevent_loop (g_tpm s) p msg ty evd supported in
              match r with
              | Ok _ => (gadd_meas (gwith_tpm s t) d, Ok tt)
              | o => (gwith_tpm s t, o)
              end
          | Err e => (s, Err e)
          | Panic => (s, Panic)
          | OutOfFuel => (s, OutOfFuel)
          end
      end
  | AExtend p src a =>
      match src with
      | DSErr => (s, Err 1)
      | DSPanic => (s, Panic)
      | DS d =>
          match converted ref bytes_of H d with
          | Ok msg =>
              let '(t, r) := texec (g_tpm s) (Extend p a msg) in
              match r with
              | Ok _ => (gadd_meas (gwith_tpm s t) d, Ok tt)
              | o => (gwith_tpm s t, o)
              end
          | Err e => (s, Err e)
          | Panic => (s, Panic)
          | OutOfFuel => (s, OutOfFuel)
          end
      end
  | ALogAdd p a d ty evd =>
      let '(t, r) := texec (g_tpm s) (LogAdd p a d ty evd) in (gwith_tpm s t, r)
  | APanic => (s, Panic)
  end.

Fixpoint grun_acts (s : gsim) (acts : list (tact ref)) : gsim * list (outcome unit) :=
  match acts with
  | [] => (s, [])
  | a :: rest =>
      let '(s1, r) := gapply_act s a in
      let '(s2, rs) := grun_acts s1 rest in
      (s2, r :: rs)
  end.

(** [log_init], [compile_item], [compile_step]: [Step.Actions] reads nothing of
    the TPM but SupportedAlgos *)
Definition glog_init (t : T) (l : Z) : list (tact ref) :=
  if forallb is_hash (talgos t)
  then map (fun a => ALogAdd 0 a (repeat 0 (hsize a)) EV_NO_ACTION (Some (startup_bytes l))) (talgos t)
  else [APanic].

Definition gcompile_item (t : T) (it : item ref) : outcome (list (tact ref)) :=
  match it with
  | IInit l => Ok [AInit l]
  | IInitTPM l wl => Ok (AInit l :: (if wl then glog_init t l else []))
  | ILogInit l => Ok (glog_init t l)
  | IEvent p src ty evd => Ok [AEvent p src ty evd]
  | IExtend p src a => Ok [AExtend p src a]
  | ILogAdd p a d ty evd => Ok [ALogAdd p a d ty evd]
  | IPCR0Data r1 r256 =>
      bind (pcr0_pair ref bytes_of H ALG_SHA1 r1)
           (fun x => bind (pcr0_pair ref bytes_of H ALG_SHA256 r256) (fun y => Ok (x ++ y)))
  | IPanic => Ok [APanic]
  end.

Fixpoint gcompile_step (t : T) (its : list (item ref)) : outcome (list (tact ref)) :=
  match its with
  | [] => Ok []
  | it :: rest => bind (gcompile_item t it) (fun x => bind (gcompile_step t rest) (fun y => Ok (x ++ y)))
  end.

Definition grun_step (s : gsim) (its : list (item ref)) : gsim * list (outcome unit) :=
  match gcompile_step (g_tpm s) its with
  | Ok acts => grun_acts s acts
  | _ => (s, [Panic])
  end.

Fixpoint grun_flow (s : gsim) (fl : list (list (item ref))) : gsim * list (list (outcome unit)) :=
  match fl with
  | [] => (s, [])
  | st :: rest =>
      let '(s1, r) := grun_step s st in
      let '(s2, rs) := grun_flow s1 rest in
      (s2, r :: rs)
  end.

(** [recycle]: the object of the earlier boots, reset for the next one *)
Definition grecycle (prev : T) (r : reuse) : T :=
  match r with
  | RNew => tnew
  | RReset => fst (texec prev Reset)
  | RResetNoInit => fst (texec prev ResetNoInit)
  | RResetNoInitAlgos => tset_algos (fst (texec prev ResetNoInit)) supported
  end.

(** [run_boots] *)
Fixpoint grun_boots (prev : T) (bs : list (reuse * list (list (item ref))))
  : list (gsim * list (list (outcome unit))) :=
  match bs with
  | [] => []
  | (r, fl) :: rest =>
      let res := grun_flow (mkGSim (grecycle prev r) []) fl in
      res :: grun_boots (g_tpm (fst res)) rest
  end.

End GenSim.

Arguments mkGSim {ref T}.
Arguments g_tpm {ref T}.
Arguments g_meas {ref T}.
