(** Case language of the C19 correspondence check. The Go harness (harness/cmd/c19) writes
    [coq/gen/Cases_C19_*.v] with the inputs it gave to the real code and what the real code
    returned; [check] re-runs the model (Model/IBB.v).

    Images are shipped run-length / pattern encoded ([list piece]) and expanded inside Coq;
    digests are compared through their preimage: the harness looks for the byte string whose
    Go-crypto hash equals the digest the code returned and ships (length, dlist) of it. *)
From CSS Require Import Lib.Base Lib.Cases Model.IBB.

Inductive piece : Type :=
| PFill (b n : Z)          (* n copies of byte b *)
| PLit (l : list Z)
| PPat (start n : Z).      (* pat_byte start, pat_byte (start+1), ... (n bytes) *)

Definition pat_byte (i : Z) : Z := Z.land (i + Z.shiftr i 8 + Z.shiftr i 16) 255.

Fixpoint pat_from (i : Z) (n : nat) : list Z :=
  match n with O => [] | S k => pat_byte i :: pat_from (i + 1) k end.

Definition expand_piece (p : piece) : list Z :=
  match p with
  | PFill b n => repeat b (Z.to_nat n)
  | PLit l => l
  | PPat s n => pat_from s (Z.to_nat n)
  end.

Fixpoint expand (ps : list piece) : list Z :=
  match ps with [] => [] | p :: t => expand_piece p ++ expand t end.

(** apply the observed differences (offset, bytes) of the file after the call *)
Fixpoint apply_diffs (file : list Z) (ds : list (Z * list Z)) : list Z :=
  match ds with
  | [] => file
  | (off, b) :: t => apply_diffs (write_at file off b) t
  end.

Definition seg_eqb (a b : segment) : bool :=
  (sg_base a =? sg_base b) && (sg_size a =? sg_size b) && (sg_flags a =? sg_flags b).

(** (length, dlist 0) of a byte string *)
Definition fp (b : list Z) : Z * Z := (zlen b, dlist 0 b).
Definition fp_eqb (a b : Z * Z) : bool := (fst a =? fst b) && (snd a =? snd b).
Definition afp_eqb (a : Z * (Z * Z)) (b : Z * (Z * Z)) : bool := (fst a =? fst b) && fp_eqb (snd a) (snd b).

Inductive case : Type :=
(* tools.CalcImageOffset(image, addr) on an image of layout l and length n *)
| COffset (l : layout) (n : Z) (addr : Z) (r : obs Z)
(* CreateIBBSegments(se_idx, flags, file) on a UEFI image with the given FIT; manifest with se_count SE *)
| CSegFit (se_count se_idx flags : Z) (fit : option (list fit_entry)) (r : obs (list segment))
(* the same on a coreboot image *)
| CSegCbfs (se_count se_idx flags file_size cbfs_off : Z) (files : list cbfs_file) (r : obs (list segment))
(* GetIBBsDigest(image, name of alg) with the manifest's segment list; r = fingerprint of the preimage *)
| CDigest (ver alg : Z) (l : layout) (img : list piece) (segs : list segment) (r : obs (Z * Z))
(* CreateIBBDigest(file) with the manifest's algorithm list *)
| CCreateDigest (ver : Z) (algs : list Z) (l : layout) (img : list piece) (segs : list segment)
                (r : obs (list (Z * (Z * Z))))
(* IBBsMatchBPMDigest(image) after GetIBBsDigest filled the manifest *)
| CMatch (l : layout) (img : list piece) (segs : list segment) (r : obs bool)
(* StitchFITEntries(file, acm, bpm, km): error?, length and differences of the file afterwards *)
| CStitch (l : layout) (img : list piece) (fit : option (list fit_entry)) (acm bpm km : list Z)
          (ok : bool) (len_after : Z) (diffs : list (Z * list Z)).

Definition map_outcome {A B} (f : A -> B) (o : outcome A) : outcome B :=
  match o with Ok a => Ok (f a) | Err c => Err c | Panic => Panic | OutOfFuel => OutOfFuel end.

Definition check (c : case) : bool :=
  match c with
  | COffset l n addr r => obs_match Z.eqb r (calc_offset l n addr)
  | CSegFit n i flags fit r => obs_match (list_eqb seg_eqb) r (create_ibb_segments n i flags fit)
  | CSegCbfs n i flags fs co files r =>
      obs_match (list_eqb seg_eqb) r (create_ibb_segments_cbfs n i flags fs co files)
  | CDigest ver alg l img segs r =>
      obs_match fp_eqb r (map_outcome (fun p => fp (snd p)) (get_ibbs_digest ver alg l (expand img) segs))
  | CCreateDigest ver algs l img segs r =>
      obs_match (list_eqb afp_eqb) r
        (map_outcome (map (fun p => (fst p, fp (snd p)))) (create_ibb_digest ver algs l (expand img) segs))
  | CMatch l img segs r => obs_match Bool.eqb r (ibbs_match l (expand img) segs)
  | CStitch l img fit acm bpm km ok len_after diffs =>
      let i := expand img in
      let '(f, k) := stitch l i fit acm bpm km in
      Bool.eqb k ok && (zlen f =? len_after) && zlist_eqb f (apply_diffs i diffs)
  end.

Definition mismatches := mismatches_by check.
