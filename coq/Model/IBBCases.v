(** Case language of the C19 correspondence check. The Go harness (harness/cmd/c19) writes
    [coq/gen/Cases_C19_*.v] with the inputs it gave to the real code and what the real code
    returned; [check] re-runs the model (Model/IBB.v).

    Images are shipped run-length / pattern encoded ([list piece]) and expanded inside Coq;
    digests are compared through their preimage: the harness looks for the byte string whose
    Go-crypto hash equals the digest the code returned and ships (length, dlist) of it.

    [CSeq]: a sequence of calls on ONE BootGuard object (the harness also re-uses one image
    buffer and one file for all of them); the model's object ([bg_state]) is threaded through
    the steps and compared with the real object after every step. *)
From CSS Require Import Lib.Base Lib.Cases Model.IBB.

Inductive piece : Type :=
| PFill (b n : Z)          (* n copies of byte b *)
| PLit (l : list Z)
| PPat (start n : Z).      (* pat_byte start, pat_byte (start+1), ... (n bytes) *)

Definition pat_byte (i : Z) : Z := Z.land (i + Z.shiftr i 8 + Z.shiftr i 16) 255.

Fixpoint pat_from (i : Z) (n : nat) : list Z :=
  match n with O => [] | S k => pat_byte i :: pat_from (i + 1) k end.

Definition expand_piece (p : piece) : list Z :=
  match p with
  | PFill b n => repeat b (Z.to_nat n)
  | PLit l => l
  | PPat s n => pat_from s (Z.to_nat n)
  end.

Fixpoint expand (ps : list piece) : list Z :=
  match ps with [] => [] | p :: t => expand_piece p ++ expand t end.

(** apply the observed differences (offset, bytes) of the file after the call *)
Fixpoint apply_diffs (file : list Z) (ds : list (Z * list Z)) : list Z :=
  match ds with
  | [] => file
  | (off, b) :: t => apply_diffs (write_at file off b) t
  end.

Definition seg_eqb (a b : segment) : bool :=
  (sg_base a =? sg_base b) && (sg_size a =? sg_size b) && (sg_flags a =? sg_flags b).

(** (length, dlist 0) of a byte string *)
Definition fp (b : list Z) : Z * Z := (zlen b, dlist 0 b).
Definition fp_eqb (a b : Z * Z) : bool := (fst a =? fst b) && (snd a =? snd b).
Definition afp_eqb (a : Z * (Z * Z)) (b : Z * (Z * Z)) : bool := (fst a =? fst b) && fp_eqb (snd a) (snd b).

Inductive case : Type :=
(* tools.CalcImageOffset(image, addr) on an image of layout l and length n *)
| COffset (l : layout) (n : Z) (addr : Z) (r : obs Z)
(* CreateIBBSegments(se_idx, flags, file) on a UEFI image with the given FIT; manifest with se_count SE *)
| CSegFit (se_count se_idx flags : Z) (fit : option (list fit_entry)) (r : obs (list segment))
(* the same on a coreboot image *)
| CSegCbfs (se_count se_idx flags file_size cbfs_off : Z) (files : list cbfs_file) (r : obs (list segment))
(* GetIBBsDigest(image, name of alg) with the manifest's segment list; r = fingerprint of the preimage *)
| CDigest (ver alg : Z) (l : layout) (img : list piece) (segs : list segment) (r : obs (Z * Z))
(* CreateIBBDigest(file) with the manifest's algorithm list *)
| CCreateDigest (ver : Z) (algs : list Z) (l : layout) (img : list piece) (segs : list segment)
                (r : obs (list (Z * (Z * Z))))
(* IBBsMatchBPMDigest(image) after GetIBBsDigest filled the manifest *)
| CMatch (l : layout) (img : list piece) (segs : list segment) (r : obs bool)
(* StitchFITEntries(file, acm, bpm, km): error?, length and differences of the file afterwards *)
| CStitch (l : layout) (img : list piece) (fit : option (list fit_entry)) (acm bpm km : list Z)
          (ok : bool) (len_after : Z) (diffs : list (Z * list Z))
(* the same with the new ACM and the differences run-length encoded (ACMs of 256 KiB and more) *)
| CStitchP (l : layout) (img : list piece) (fit : option (list fit_entry)) (acm : list piece) (bpm km : list Z)
           (ok : bool) (len_after : Z) (diffs : list (Z * list piece))
(* a sequence of calls on ONE BootGuard object (manifest generation ver) that starts with the
   given segment lists (one per SE element) and digest algorithms; every step: the call, what
   it returned, and the object afterwards (segment lists, digest list as fingerprints of the
   hashed bytes).  Images are given once and referred to by position. *)
| CSeq (ver : Z) (imgs : list (layout * list piece)) (segs0 : list (list segment)) (algs0 : list Z)
       (steps : list (cop * snapshot))

with cop : Type :=
| KSetSegs (se : Z) (segs : list segment)
| KSetAlgs (algs : list Z)
| KEditDigs (es : list dig_edit)
| KCreateSegs (se flags : Z) (fit : option (list fit_entry)) (r : obs unit)
| KCreateSegsCbfs (se flags file_size cbfs_off : Z) (files : list cbfs_file) (r : obs unit)
| KGetDigest (alg : Z) (img : nat) (r : obs (Z * Z))
| KCreateDigest (img : nat) (r : obs unit)
| KMatch (img : nat) (r : obs bool)

with snapshot : Type :=
| Snap (segs : list (list segment)) (digs : list (Z * (Z * Z))).

Definition map_outcome {A B} (f : A -> B) (o : outcome A) : outcome B :=
  match o with Ok a => Ok (f a) | Err c => Err c | Panic => Panic | OutOfFuel => OutOfFuel end.

(** fingerprint of a stored digest: (-1, 0) for a buffer that does not hold a digest, under the
    entry's algorithm, of bytes the model knows (empty, caller-provided bytes, a digest kept
    from another algorithm) *)
Definition fp_stored (a : Z) (d : stored) : Z * Z :=
  match d with Some (x, p) => if x =? a then fp p else (-1, 0) | None => (-1, 0) end.

Definition snap_ok (s : snapshot) (st : bg_state) : bool :=
  match s with
  | Snap segs digs =>
      list_eqb (list_eqb seg_eqb) segs (bg_segs st) &&
      list_eqb afp_eqb digs (map (fun ad => (fst ad, fp_stored (fst ad) (snd ad))) (bg_digs st))
  end.

Definition unit_eqb (a b : unit) : bool := true.

Definition image_at (imgs : list (layout * list Z)) (k : nat) : layout * list Z := nth k imgs (LNone, []).

(** the operation of a step and whether the model's result is what was observed *)
Definition cop_op (imgs : list (layout * list Z)) (k : cop) : op :=
  match k with
  | KSetSegs i s => OSetSegs i s
  | KSetAlgs a => OSetAlgs a
  | KEditDigs es => OEditDigs es
  | KCreateSegs i f fit _ => OCreateSegs i f fit
  | KCreateSegsCbfs i f fs co files _ => OCreateSegsCbfs i f fs co files
  | KGetDigest alg n _ => OGetDigest alg (fst (image_at imgs n)) (snd (image_at imgs n))
  | KCreateDigest n _ => OCreateDigest (fst (image_at imgs n)) (snd (image_at imgs n))
  | KMatch n _ => OMatch (snd (image_at imgs n))
  end.

Definition result_ok (k : cop) (r : result) : bool :=
  match k, r with
  | KSetSegs _ _, RNone | KSetAlgs _, RNone | KEditDigs _, RNone => true
  | KCreateSegs _ _ _ o, RUnit m | KCreateSegsCbfs _ _ _ _ _ o, RUnit m | KCreateDigest _ o, RUnit m =>
      obs_match unit_eqb o m
  | KGetDigest _ _ o, RDigest m => obs_match fp_eqb o (map_outcome (fun p => fp (snd p)) m)
  | KMatch _ o, RBool m => obs_match Bool.eqb o m
  | _, _ => false
  end.

Fixpoint run_check (ver : Z) (imgs : list (layout * list Z)) (st : bg_state) (steps : list (cop * snapshot)) : bool :=
  match steps with
  | [] => true
  | (k, s) :: t =>
      let '(st', r) := step ver st (cop_op imgs k) in
      result_ok k r && snap_ok s st' && run_check ver imgs st' t
  end.

Definition check (c : case) : bool :=
  match c with
  | COffset l n addr r => obs_match Z.eqb r (calc_offset l n addr)
  | CSegFit n i flags fit r => obs_match (list_eqb seg_eqb) r (create_ibb_segments n i flags fit)
  | CSegCbfs n i flags fs co files r =>
      obs_match (list_eqb seg_eqb) r (create_ibb_segments_cbfs n i flags fs co files)
  | CDigest ver alg l img segs r =>
      obs_match fp_eqb r (map_outcome (fun p => fp (snd p)) (get_ibbs_digest ver alg l (expand img) segs))
  | CCreateDigest ver algs l img segs r =>
      obs_match (list_eqb afp_eqb) r
        (map_outcome (map (fun p => (fst p, fp (snd p)))) (create_ibb_digest ver algs l (expand img) segs))
  | CMatch l img segs r => obs_match Bool.eqb r (ibbs_match l (expand img) segs)
  | CStitch l img fit acm bpm km ok len_after diffs =>
      let i := expand img in
      let '(f, k) := stitch l i fit acm bpm km in
      Bool.eqb k ok && (zlen f =? len_after) && zlist_eqb f (apply_diffs i diffs)
  | CStitchP l img fit acm bpm km ok len_after diffs =>
      let i := expand img in
      let '(f, k) := stitch l i fit (expand acm) bpm km in
      Bool.eqb k ok && (zlen f =? len_after) &&
      zlist_eqb f (apply_diffs i (map (fun d => (fst d, expand (snd d))) diffs))
  | CSeq ver imgs segs0 algs0 steps =>
      run_check ver (map (fun lp => (fst lp, expand (snd lp))) imgs)
                (mkBG segs0 (map (fun a => (a, None)) algs0)) steps
  end.

Definition mismatches := mismatches_by check.
