(** The boot simulation of Model/BootSim.v one level lower: converter OBJECTS and
    the MEMORY the recorded digests live in.

    Model/BootSim.v treats a converter as a function ([d_conv = Some a]: "hash with
    algorithm a") and a recorded digest as a value.  In the Go code a converter is
    an object (dataconverters.Hasher: a hash.Hash with its running state behind a
    mutex; the same *Hasher may be the Converter of any number of types.Data), a
    digest is a slice, and CommandExtend.Digest / EventLogEntry.Digest keep the
    very slice they were given:
      - Hasher.Convert: Lock; Hash.Reset(); Hash.Write(in); Hash.Sum(nil);
      - RawBytes.ConvertBy(nil): the buffer References.RawBytes() just built;
      - TPMExtend.Apply hands data.ConvertedBytes() to TPM.TPMExtend, which records
        the slice in CommandLog; TPMEvent.Apply hashes ConvertedBytes() per bank
        (hasher.Sum(nil)) and hands that one slice to TPMExtend and TPMEventLogAdd;
        TPMEventLogAdd.Apply hands on the slice the action was built with.
    Here: a heap of byte arrays ([alloc] is the only way an array comes to exist,
    no operation of the faithful model writes into an existing one), a pool of
    hasher objects with their running state, flows whose data name their converter
    by its NUMBER in the pool (so that several measurements can hold one object),
    and, beside the TPM of Model/TPM.v -- whose logs hold each digest as it was
    when the command was executed --, for every recorded digest the array it is a
    slice of.  What somebody who reads CommandLog / EventLog AFTER the flow sees is
    [deref] of those arrays in the FINAL heap.

    Proofs/BootSimObjs.v: this run does what Model/BootSim.v does on the flow in
    which every converter number is replaced by the algorithm of the object,
    whatever state earlier conversions (or earlier boots) left the objects in and
    however the objects are shared; and the digests read after the flow (or after
    later boots) are the digests that were extended. *)
From CSS Require Import Lib.Base Model.TPM Model.BootSim.

(** * Memory *)

Definition heap := list (list Z).
(** a new array (make / append to a nil slice / bytes.Buffer) *)
Definition alloc (hp : heap) (b : list Z) : heap * nat := (hp ++ [b], length hp).
Definition deref (hp : heap) (a : nat) : list Z := nth a hp [].

Fixpoint set_nth {A} (n : nat) (x : A) (l : list A) : list A :=
  match l, n with
  | [], _ => []
  | _ :: t, O => x :: t
  | y :: t, S n' => y :: set_nth n' x t
  end.

(** * dataconverters.Hasher *)

(** [hs_state]: the bytes written into the hash.Hash since its last Reset *)
Record hasher := mkHasher { hs_alg : Z; hs_state : list Z }.

Definition h_reset (h : hasher) : hasher := mkHasher (hs_alg h) [].
Definition h_write (h : hasher) (b : list Z) : hasher := mkHasher (hs_alg h) (hs_state h ++ b).

Definition pool := list hasher.
Definition pool_get (pl : pool) (k : Z) : hasher := nth (Z.to_nat k) pl (mkHasher 0 []).
Definition pool_set (pl : pool) (k : Z) (h : hasher) : pool := set_nth (Z.to_nat k) h pl.

(** what the numbers of a flow stand for in Model/BootSim.v *)
Definition alg_of (al : list Z) (k : Z) : Z := nth (Z.to_nat k) al 0.

Section Objs.
Variable ref : Type.
Variable bytes_of : ref -> outcome (list Z).
Variable H : Z -> list Z -> list Z.

(** [hash.Hash.Sum(nil)]: the digest of everything written, appended to a nil
    slice, i.e. in a new array; the running state is not changed *)
Definition h_sum_nil (hp : heap) (h : hasher) : heap * nat := alloc hp (H (hs_alg h) (hs_state h)).

(** [Hasher.Convert] *)
Definition hasher_convert (hp : heap) (h : hasher) (inp : list Z) : heap * hasher * nat :=
  let h1 := h_write (h_reset h) inp in
  let '(hp', a) := h_sum_nil hp h1 in
  (hp', h1, a).

(** [RawBytes.ConvertBy(converter)] of the bytes References.RawBytes() returned:
    with a nil converter the buffer itself (an array nobody else has) *)
Definition oconvert (pl : pool) (hp : heap) (c : option Z) (raw : list Z) : pool * heap * nat :=
  match c with
  | None => let '(hp', a) := alloc hp raw in (pl, hp', a)
  | Some k =>
      let '(hp', h', a) := hasher_convert hp (pool_get pl k) raw in
      (pool_set pl k h', hp', a)
  end.

(** * The simulation *)

Record osim := mkOSim {
  o_sim  : sim ref;     (* the TPM -- its logs hold the digests as they were when the command was executed -- and MeasuredData *)
  o_pool : pool;        (* the converter objects *)
  o_heap : heap;
  o_cdig : list nat;    (* CommandLog: for every Extend / LogAdd command, in order, the array its Digest is a slice of *)
  o_edig : list nat     (* EventLog: the same for every entry *)
}.

(** a command whose digest is a slice of an array *)
Inductive ocmd :=
| OCStartup (l : Z)
| OCExtend (p a : Z) (d : nat)
| OCLogAdd (p a : Z) (d : nat) (ty : Z) (evd : option (list Z)).

Definition cmd_of (hp : heap) (c : ocmd) : cmd :=
  match c with
  | OCStartup l => Startup l
  | OCExtend p a d => Extend p a (deref hp d)
  | OCLogAdd p a d ty evd => LogAdd p a (deref hp d) ty evd
  end.

Definition cdig_of (c : ocmd) : list nat :=
  match c with OCStartup _ => [] | OCExtend _ _ d => [d] | OCLogAdd _ _ d _ _ => [d] end.
Definition edig_of (c : ocmd) : list nat :=
  match c with OCLogAdd _ _ d _ _ => [d] | _ => [] end.

(** [TPM.TPMExecute]: the TPM reads the digest now; the logs keep the slice *)
Definition oexec (s : osim) (c : ocmd) : osim * outcome unit :=
  let '(t, r) := step H (s_tpm (o_sim s)) (cmd_of (o_heap s) c) in
  (mkOSim (with_tpm ref (o_sim s) t) (o_pool s) (o_heap s) (o_cdig s ++ cdig_of c) (o_edig s ++ edig_of c), r).

(** objects and memory after some conversion / allocation *)
Definition grow (s : osim) (pl : pool) (hp : heap) : osim :=
  mkOSim (o_sim s) pl hp (o_cdig s) (o_edig s).

Definition oadd_meas (s : osim) (d : mdata ref) : osim :=
  mkOSim (add_meas ref (o_sim s) d) (o_pool s) (o_heap s) (o_cdig s) (o_edig s).

(** the data as Model/BootSim.v sees it *)
Definition rdata (al : list Z) (d : mdata ref) : mdata ref :=
  mkData (d_refs d) (option_map (alg_of al) (d_conv d)).

(** actions; [OExtendOwn]: a TPMExtend over static data whose converter is a Hasher
    the step made for this one data object (PCR0_DATA) *)
Inductive oact :=
| OInit (l : Z)
| OEvent (p : Z) (src : dsrc ref) (ty : Z) (evd : option (list Z))
| OExtend (p : Z) (src : dsrc ref) (a : Z)
| OExtendOwn (p : Z) (rs : list ref) (h : hasher) (a : Z)
| OLogAdd (p a : Z) (d : list Z) (ty : Z) (evd : option (list Z))
| OPanic.

(** the loop of [TPMEvent.Apply]: per bank, data.ConvertedBytes() (a conversion
    of its own), hasher.Sum(nil), and that one slice for TPMExtend and TPMEventLogAdd *)
Fixpoint oevent_loop (s : osim) (p : Z) (c : option Z) (raw : list Z) (ty : Z) (evd : option (list Z))
         (algs : list Z) : osim * outcome unit :=
  match algs with
  | [] => (s, Ok tt)
  | a :: rest =>
      let '(pl, hp, m) := oconvert (o_pool s) (o_heap s) c raw in
      let '(hp2, dg) := alloc hp (H a (deref hp m)) in
      let '(s1, r1) := oexec (grow s pl hp2) (OCExtend p a dg) in
      match r1 with
      | Ok _ =>
          let '(s2, r2) := oexec s1 (OCLogAdd p a dg ty evd) in
          match r2 with
          | Ok _ => oevent_loop s2 p c raw ty evd rest
          | o => (s2, o)
          end
      | o => (s1, o)
      end
  end.

(** [TPMExtend.Apply] once the bytes are there *)
Definition oextend (s : osim) (p a : Z) (pl : pool) (hp : heap) (m : nat) (d : mdata ref) : osim * outcome unit :=
  let '(s1, r) := oexec (grow s pl hp) (OCExtend p a m) in
  match r with
  | Ok _ => (oadd_meas s1 d, Ok tt)
  | o => (s1, o)
  end.

(** [Action.Apply]; [al]: the algorithms of the converter objects (for MeasuredData
    as Model/BootSim.v records it) *)
Definition oapply_act (al : list Z) (s : osim) (a : oact) : osim * outcome unit :=
  match a with
  | OInit l => oexec s (OCStartup l)
  | OEvent p src ty evd =>
      match src with
      | DSErr => (s, Err 1)
      | DSPanic => (s, Panic)
      | DS d =>
          match raw_bytes ref bytes_of (d_refs d) with
          | Ok raw =>
              let '(s1, r) := oevent_loop s p (d_conv d) raw ty evd supported in
              match r with
              | Ok _ => (oadd_meas s1 (rdata al d), Ok tt)
              | o => (s1, o)
              end
          | Err e => (s, Err e)
          | Panic => (s, Panic)
          | OutOfFuel => (s, OutOfFuel)
          end
      end
  | OExtend p src a =>
      match src with
      | DSErr => (s, Err 1)
      | DSPanic => (s, Panic)
      | DS d =>
          match raw_bytes ref bytes_of (d_refs d) with
          | Ok raw =>
              let '(pl, hp, m) := oconvert (o_pool s) (o_heap s) (d_conv d) raw in
              oextend s p a pl hp m (rdata al d)
          | Err e => (s, Err e)
          | Panic => (s, Panic)
          | OutOfFuel => (s, OutOfFuel)
          end
      end
  | OExtendOwn p rs h a =>
      match raw_bytes ref bytes_of rs with
      | Ok raw =>
          let '(hp, _, m) := hasher_convert (o_heap s) h raw in
          oextend s p a (o_pool s) hp m (mkData rs (Some (hs_alg h)))
      | Err e => (s, Err e)
      | Panic => (s, Panic)
      | OutOfFuel => (s, OutOfFuel)
      end
  | OLogAdd p a d ty evd =>
      (* the Digest the action was built with: an array of the caller's *)
      let '(hp, m) := alloc (o_heap s) d in
      oexec (grow s (o_pool s) hp) (OCLogAdd p a m ty evd)
  | OPanic => (s, Panic)
  end.

Fixpoint orun_acts (al : list Z) (s : osim) (acts : list oact) : osim * list (outcome unit) :=
  match acts with
  | [] => (s, [])
  | a :: rest =>
      let '(s1, r) := oapply_act al s a in
      let '(s2, rs) := orun_acts al s1 rest in
      (s2, r :: rs)
  end.

(** [LogInitStruct.Actions] *)
Definition olog_init (t : state) (l : Z) : list oact :=
  if forallb is_hash (algos t)
  then map (fun a => OLogAdd 0 a (repeat 0 (hsize a)) EV_NO_ACTION (Some (startup_bytes l))) (algos t)
  else [OPanic].

(** [pcr0DATA.compileActions]: [dataconverters.NewHasher(h)] for this data object;
    the Digest of the TPMEventLogAdd is [data.ConvertedBytes()] evaluated while the
    step is compiled (that conversion leaves [raw] as the state of the hasher; its
    result array becomes part of the memory when the action is applied) *)
Definition opcr0_pair (a : Z) (refs : option (list ref)) : outcome (list oact) :=
  match refs with
  | None => Ok [OPanic]
  | Some rs =>
      bind (raw_bytes ref bytes_of rs) (fun raw =>
      let h := h_write (h_reset (mkHasher a [])) raw in
      Ok [OExtendOwn 0 rs h a;
          OLogAdd 0 a (H (hs_alg h) (hs_state h)) EV_S_CRTM_CONTENTS (Some (pcr0_data_descr a))])
  end.

Definition ocompile_item (t : state) (it : item ref) : outcome (list oact) :=
  match it with
  | IInit l => Ok [OInit l]
  | IInitTPM l wl => Ok (OInit l :: (if wl then olog_init t l else []))
  | ILogInit l => Ok (olog_init t l)
  | IEvent p src ty evd => Ok [OEvent p src ty evd]
  | IExtend p src a => Ok [OExtend p src a]
  | ILogAdd p a d ty evd => Ok [OLogAdd p a d ty evd]
  | IPCR0Data r1 r256 =>
      bind (opcr0_pair ALG_SHA1 r1) (fun x => bind (opcr0_pair ALG_SHA256 r256) (fun y => Ok (x ++ y)))
  | IPanic => Ok [OPanic]
  end.

Fixpoint ocompile_step (t : state) (its : list (item ref)) : outcome (list oact) :=
  match its with
  | [] => Ok []
  | it :: rest => bind (ocompile_item t it) (fun x => bind (ocompile_step t rest) (fun y => Ok (x ++ y)))
  end.

Definition orun_step (al : list Z) (s : osim) (its : list (item ref)) : osim * list (outcome unit) :=
  match ocompile_step (s_tpm (o_sim s)) its with
  | Ok acts => orun_acts al s acts
  | _ => (s, [Panic])
  end.

Fixpoint orun_flow (al : list Z) (s : osim) (fl : list (list (item ref))) : osim * list (list (outcome unit)) :=
  match fl with
  | [] => (s, [])
  | st :: rest =>
      let '(s1, r) := orun_step al s st in
      let '(s2, rs) := orun_flow al s1 rest in
      (s2, r :: rs)
  end.

(** a boot: converter objects [pl] and memory [hp] as whatever happened before left
    them, the TPM object as [reuse] says, nothing recorded yet *)
Definition ostart (r : reuse) (pl : pool) (hp : heap) : osim := mkOSim (boot_start r) pl hp [] [].

Definition oboot (r : reuse) (pl : pool) (hp : heap) (fl : list (list (item ref)))
  : osim * list (list (outcome unit)) :=
  orun_flow (map hs_alg pl) (ostart r pl hp) fl.

(** * The flow as Model/BootSim.v sees it *)

Definition rsrc (al : list Z) (s : dsrc ref) : dsrc ref :=
  match s with DS d => DS (rdata al d) | DSErr => DSErr | DSPanic => DSPanic end.

Definition ritem (al : list Z) (it : item ref) : item ref :=
  match it with
  | IEvent p src ty evd => IEvent p (rsrc al src) ty evd
  | IExtend p src a => IExtend p (rsrc al src) a
  | x => x
  end.

Definition rflow (al : list Z) (fl : list (list (item ref))) : list (list (item ref)) :=
  map (map (ritem al)) fl.

Definition ract (al : list Z) (a : oact) : tact ref :=
  match a with
  | OInit l => AInit l
  | OEvent p src ty evd => AEvent p (rsrc al src) ty evd
  | OExtend p src a => AExtend p (rsrc al src) a
  | OExtendOwn p rs h a => AExtend p (DS (mkData rs (Some (hs_alg h)))) a
  | OLogAdd p a d ty evd => ALogAdd p a d ty evd
  | OPanic => APanic
  end.

(** * What is read after the flow *)

Definition digests_of (cs : list cmd) : list (list Z) :=
  flat_map (fun c => match c with Extend _ _ d => [d] | LogAdd _ _ d _ _ => [d] | _ => [] end) cs.
Definition ev_digest (e : event) : list Z := match e with EV _ _ d _ _ => d end.

(** the Digest fields of CommandLog / EventLog as they read now *)
Definition read_cdig (s : osim) : list (list Z) := map (deref (o_heap s)) (o_cdig s).
Definition read_edig (s : osim) : list (list Z) := map (deref (o_heap s)) (o_edig s).

(** CommandLog / EventLog as somebody who reads them now sees them: the commands
    and entries that were recorded, each with the Digest its slice shows now *)
Fixpoint subst_digests (cs : list cmd) (ds : list (list Z)) : list cmd :=
  match cs with
  | [] => []
  | Extend p a d0 :: t =>
      match ds with d :: ds' => Extend p a d :: subst_digests t ds' | [] => Extend p a d0 :: subst_digests t [] end
  | LogAdd p a d0 ty evd :: t =>
      match ds with d :: ds' => LogAdd p a d ty evd :: subst_digests t ds' | [] => LogAdd p a d0 ty evd :: subst_digests t [] end
  | c :: t => c :: subst_digests t ds
  end.

Fixpoint subst_evdigests (es : list event) (ds : list (list Z)) : list event :=
  match es, ds with
  | EV p a _ ty evd :: t, d :: ds' => EV p a d ty evd :: subst_evdigests t ds'
  | _, _ => es
  end.

Definition read_cmdlog (s : osim) : list cmd := subst_digests (cmdlog (s_tpm (o_sim s))) (read_cdig s).
Definition read_evlog (s : osim) : list event := subst_evdigests (evlog (s_tpm (o_sim s))) (read_edig s).

End Objs.

Arguments read_cmdlog {ref}.
Arguments read_evlog {ref}.
Arguments mkOSim {ref}.
Arguments o_sim {ref}.
Arguments o_pool {ref}.
Arguments o_heap {ref}.
Arguments o_cdig {ref}.
Arguments o_edig {ref}.
Arguments read_cdig {ref}.
Arguments read_edig {ref}.

(** * What the faithful model does NOT do: a Hasher that keeps its result buffer

    [Convert] writing the digest into an array the object owns ([Sum(buf[:0])]) and
    returning that array: every result of the object is the same slice.  Used only
    to show (Proofs/BootSimObjs.v [reusing_buffer_overwrites]) that the statement
    about digests read after the flow is not vacuous: it fails for this variant. *)
Section Reusing.
Variable H : Z -> list Z -> list Z.

Record rhasher := mkRHasher { rh_alg : Z; rh_buf : option nat }.

Definition rhasher_convert (hp : heap) (h : rhasher) (inp : list Z) : heap * rhasher * nat :=
  match rh_buf h with
  | Some b => (set_nth b (H (rh_alg h) inp) hp, h, b)
  | None => let '(hp', b) := alloc hp (H (rh_alg h) inp) in (hp', mkRHasher (rh_alg h) (Some b), b)
  end.
End Reusing.
