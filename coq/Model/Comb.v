(** Model of pkg/bruteforcer/indexes.go (UniqueUnorderedCombination and its
    iterator).  Executable definitions only; proofs live in Proofs/Comb.v.

    Go types: [Value] is int64, IDs and amounts are uint64.  Index values are
    tiny compared with 2^63, so they are plain [Z]; the ID arithmetic is done
    in uint64 and the wrap is written out ([wrap64]). *)
From CSS Require Import Lib.Base.

(** * Binomial coefficients *)

(** Pascal's rule, i.e. exactly the recurrence that fills
    [binomialCoefficientsLookupTable] (without the uint64 wrap). *)
Fixpoint binom (n k : nat) : Z :=
  match k with
  | O => 1
  | S k' => match n with
            | O => 0
            | S n' => binom n' k' + binom n' k
            end
  end.

(** Executable variant (multiplicative formula); [Proofs/Comb.v] proves
    [binom_fast (Z.of_nat n) k = binom n k]. *)
Fixpoint binom_fast (n : Z) (k : nat) : Z :=
  match k with
  | O => 1
  | S k' => if n <=? 0 then 0 else binom_fast (n - 1) k' * n / Z.of_nat k
  end.

(** [binomialCoefficientFast(n, k uint64) uint64]: the table holds Pascal sums
    wrapped to 64 bits, the fallback is [big.Int.Binomial(...).Uint64()], the
    low 64 bits of the true value.  Both are [binom mod 2^64]. Arguments are
    uint64 values; [n >= 2^63] (an [int64] conversion going negative) does not
    occur for valid combinations and is outside the model: it returns 0, which
    is what math/big returns for k > n. *)
Definition binom64 (n k : Z) : Z :=
  if (n <? 0) || (k <? 0) || (9223372036854775808 <=? n) then 0
  else wrap64 (binom_fast n (Z.to_nat k)).

(** * next *)

(** [rs] is the combination reversed; [d] = lastIdx - idxIdx. Returns the flag
    and the (reversed) new contents of the slice: on exhaustion every element
    has been incremented, as in the Go loop. *)
Fixpoint next_rev (m d : Z) (rs : list Z) : bool * list Z :=
  match rs with
  | [] => (false, [])
  | x :: rest =>
      if x + 1 <=? m - d then (true, (x + 1) :: rest)
      else
        let '(ok, rest') := next_rev m (d + 1) rest in
        if ok then (true, (hd 0 rest' + 1) :: rest')
        else (false, (x + 1) :: rest')
  end.

Definition next (m : Z) (s : list Z) : bool * list Z :=
  let '(ok, r) := next_rev m 0 (rev s) in (ok, rev r).

(** * getCombinationID *)

Fixpoint rank64_aux (m prev : Z) (s : list Z) (acc : Z) : Z :=
  match s with
  | [] => acc
  | v :: t =>
      let a := Z.of_nat (length s) in
      let sub := wrap64 (binom64 (wrap64 (m + 1 - prev - 1)) a
                         - binom64 (wrap64 (m + 1 - v)) a) in
      rank64_aux m v t (wrap64 (acc + sub))
  end.

Definition rank64 (m : Z) (s : list Z) : Z := rank64_aux m (W64 - 1) s 0.

(** Exact specification in Z (no wrap). *)
Fixpoint rank_aux (m prev : Z) (s : list Z) : Z :=
  match s with
  | [] => 0
  | v :: t =>
      let a := length s in
      binom (Z.to_nat (m - prev)) a - binom (Z.to_nat (m + 1 - v)) a
      + rank_aux m v t
  end.
Definition rank (m : Z) (s : list Z) : Z := rank_aux m (-1) s.

Definition amount64 (m : Z) (k : nat) : Z := binom64 (wrap64 (m + 1)) (Z.of_nat k).

(** * setCombinationID *)

(** [setSeries idx v]: s[idx..] := v, v+1, ...; panics when the last element
    exceeds [m] and (index -1) when the slice is empty. *)
Definition set_series (m : Z) (idx : nat) (v : Z) (s : list Z) : outcome (list Z) :=
  let s' := firstn idx s ++ seqZ v (length s - idx) in
  match rev s' with
  | [] => Panic
  | l :: _ => if m <? l then Panic else Ok s'
  end.

Fixpoint seek_loop (fuel : nat) (m id : Z) (idx : nat) (s : list Z) : outcome (list Z) :=
  match fuel with
  | O => OutOfFuel
  | S fuel' =>
      let cur := rank64 m s in
      if cur =? id then Ok s
      else
        match nth_error s idx with
        | None => Panic (* s[iteratorValueIndex] out of range *)
        | Some x =>
            if id <? cur
            then bind (set_series m idx (x - 1) s) (fun s' => seek_loop fuel' m id (S idx) s')
            else bind (set_series m idx (x + 1) s) (fun s' => seek_loop fuel' m id idx s')
        end
  end.

Definition seek_fuel (m : Z) (k : nat) : nat := S (k + Z.to_nat (m + 2) + k)%nat.

Definition seek (m : Z) (k : nat) (id : Z) : outcome (list Z) :=
  match k with
  | O => Ok []   (* the empty combination: returns at once *)
  | _ => bind (set_series m 0 0 (repeat 0 k)) (fun s => seek_loop (seek_fuel m k) m id 0 s)
  end.

(** * Applying a combination *)

Fixpoint upd {A} (i : nat) (f : A -> A) (l : list A) : option (list A) :=
  match l, i with
  | [], _ => None
  | x :: t, O => Some (f x :: t)
  | x :: t, S i' => match upd i' f t with Some t' => Some (x :: t') | None => None end
  end.

Fixpoint flip_bools (s : list Z) (v : list bool) : outcome (list bool) :=
  match s with
  | [] => Ok v
  | i :: t =>
      if i <? 0 then Panic
      else match upd (Z.to_nat i) negb v with
           | None => Panic
           | Some v' => flip_bools t v'
           end
  end.

Definition flip_bit (bit : Z) (b : Z) : Z := Z.lxor b (Z.shiftl 1 bit).

Fixpoint flip_bytes (s : list Z) (v : list Z) : outcome (list Z) :=
  match s with
  | [] => Ok v
  | i :: t =>
      if i <? 0 then Panic
      else match upd (Z.to_nat (Z.shiftr i 3)) (flip_bit (Z.land i 7)) v with
           | None => Panic
           | Some v' => flip_bytes t v'
           end
  end.

(** * Walks (used by the correspondence check) *)

Definition first_comb (k : nat) : list Z := seqZ 0 k.

(** Walk from [s], at most [fuel] steps: digest of every visited combination
    together with its ID, the number of combinations visited, whether the walk
    ended because [next] reported exhaustion, and whether every reported ID was
    the visit index. *)
Fixpoint walk (fuel : nat) (m : Z) (s : list Z) (i : Z) (h : Z) (ids_ok : bool)
  : Z * Z * bool * bool :=
  match fuel with
  | O => (h, i, false, ids_ok)
  | S fuel' =>
      let id := rank64 m s in
      let h' := dstep (dlist h s) id in
      let ok' := ids_ok && (id =? i) in
      let '(more, s') := next m s in
      if more then walk fuel' m s' (i + 1) h' ok'
      else (h', i + 1, true, ok')
  end.
