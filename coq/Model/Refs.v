(** Executable model of /repo/pkg/bootflow/types/data.go (reference algebra) as
    the code is: RawBytes.ReadAt (fixed version), EqualSystemArtifacts,
    compareReferenceType (FAITHFUL: type names only, mapper comparison dead),
    References.SortAndMerge / Exclude / RawBytes / Ranges / BySystemArtifact /
    Resolve, Reference.RawBytes; plus bytes.Reader.ReadAt (used by
    biosimage.BIOSImage.ReadAt) and the address mappers the harness uses
    (biosimage.PhysMemMapper and the harness' own shifting/splitting mapper).
    No proofs here. *)
From CSS Require Import Lib.Base Model.Ranges.

Definition zlen {A} (l : list A) : Z := Z.of_nat (length l).

(** ** Artifacts and mappers *)

(** [aid]: identity class under [EqualSystemArtifacts] (slice header for
    RawBytes, pointer for the other artifact types); [tname]: rank of the
    artifact's type name (fmt "%T") in Go string order; [araw]: the type is
    types.RawBytes; [acontent]: the bytes [ReadAt] serves.  Nil artifacts are
    not modelled. *)
Record art := mkArt { aid : Z; tname : Z; araw : bool; acontent : list Z }.

Inductive mapper :=
| MNil                                              (* untyped nil: identity *)
| MPhys                                             (* biosimage.PhysMemMapper{} *)
| MCustom (delta : Z) (split : bool) (fail_at : Z). (* harness mapper, a comparable struct *)

(** Go interface equality on mappers (dynamic type and value). *)
Definition mapper_eqb (a b : mapper) : bool :=
  match a, b with
  | MNil, MNil => true
  | MPhys, MPhys => true
  | MCustom d s f, MCustom d' s' f' => (d =? d') && Bool.eqb s s' && (f =? f')
  | _, _ => false
  end.

Record ref := mkRef { rart : art; rmap : mapper; rranges : list range }.

Definition set_ranges (r : ref) (l : list range) : ref := mkRef (rart r) (rmap r) l.

(** [EqualSystemArtifacts] on non-nil artifacts. *)
Definition art_eqb (a b : art) : bool := aid a =? aid b.

(** ** RawBytes.ReadAt and bytes.Reader.ReadAt *)

Definition slice (b : list Z) (off n : Z) : list Z :=
  firstn (Z.to_nat n) (skipn (Z.to_nat off) b).

(** error class: 0 nil, 1 io.EOF, 2 another error *)
Record readres := mkRd { rd_n : Z; rd_p : list Z; rd_err : Z }.

(** [RawBytes.ReadAt(p, off)]: [p] is the buffer before the call, [rd_p] after. *)
Definition readat_raw (b p : list Z) (off : Z) : outcome readres :=
  if zlen b <=? off then Ok (mkRd 0 p 1)
  else if off <? 0 then Panic                      (* b[offset:] with a negative index *)
  else
    let n := Z.min (zlen b - off) (zlen p) in
    Ok (mkRd n (slice b off n ++ skipn (Z.to_nat n) p) 0).

(** [bytes.NewReader(b).ReadAt(p, off)]. *)
Definition readat_reader (b p : list Z) (off : Z) : outcome readres :=
  if off <? 0 then Ok (mkRd 0 p 2)
  else if zlen b <=? off then Ok (mkRd 0 p 1)
  else
    let n := Z.min (zlen b - off) (zlen p) in
    Ok (mkRd n (slice b off n ++ skipn (Z.to_nat n) p) (if n <? zlen p then 1 else 0)).

Definition art_readat (a : art) (p : list Z) (off : Z) : outcome readres :=
  if araw a then readat_raw (acontent a) p off else readat_reader (acontent a) p off.

(** ** compareReferenceType *)

Inductive cmpres := CLt | CEq | CGt | CPanic.

(** Faithful: equal artifacts leave c0 = c1 = ""; otherwise only the type names
    are compared; the mapper branch [a.AddressMapper != a.AddressMapper] is
    never taken. *)
Definition cmp_ref (a b : ref) : cmpres :=
  if art_eqb (rart a) (rart b) then CEq
  else if tname (rart a) =? tname (rart b) then (if araw (rart a) then CEq else CPanic)
  else if tname (rart a) <? tname (rart b) then CLt else CGt.

Definition is_panic (c : cmpres) : bool := match c with CPanic => true | _ => false end.
Definition is_lt (c : cmpres) : bool := match c with CLt => true | _ => false end.

(** some pair of the list makes the comparator panic *)
Fixpoint has_conflict (s : list ref) : bool :=
  match s with
  | [] => false
  | a :: t => existsb (fun b => is_panic (cmp_ref a b)) t || has_conflict t
  end.

(** what a correct sort with less(i,j) = (cmp < 0) guarantees: no later element
    is "less" than an earlier adjacent one *)
Fixpoint sorted_cmp (s : list ref) : bool :=
  match s with
  | a :: ((b :: _) as t) => negb (is_lt (cmp_ref b a)) && sorted_cmp t
  | _ => true
  end.

(** ** References.SortAndMerge *)

(** The grouping loop, [cur] = curRef (already holding a real reference).
    [append(curRef.Ranges[:n:n], ref.Ranges...)] never writes into the caller's
    array: at the value level it is list concatenation (the slice-level model of
    Model/ValidatorsHeap.v says where the result lives). *)
Fixpoint sm_loop (cur : ref) (l : list ref) : list ref :=
  match l with
  | [] => [set_ranges cur (ranges_sm (rranges cur))]
  | r :: t =>
      if art_eqb (rart r) (rart cur) && mapper_eqb (rmap r) (rmap cur)
      then sm_loop (set_ranges cur (rranges cur ++ rranges r)) t
      else
        match rranges cur with
        | [] => sm_loop r t                        (* an empty curRef is dropped *)
        | _ :: _ => set_ranges cur (ranges_sm (rranges cur)) :: sm_loop r t
        end
  end.

(** Everything after sort.Slice, on the order [s'] the sort produced. The zero
    curRef (nil artifact, no ranges) is replaced by the first reference
    without emitting anything. *)
Definition refs_sm_sorted (s' : list ref) : list ref :=
  match map (fun r => set_ranges r (ranges_sm (rranges r))) s' with
  | [] => []
  | r :: t => sm_loop r t
  end.

(** permutation given as the list of source indices *)
Fixpoint nat_mem (x : nat) (l : list nat) : bool :=
  match l with [] => false | y :: t => Nat.eqb x y || nat_mem x t end.
Fixpoint nodupb (l : list nat) : bool :=
  match l with [] => true | x :: t => negb (nat_mem x t) && nodupb t end.
Definition valid_perm (n : nat) (p : list nat) : bool :=
  Nat.eqb (length p) n && nodupb p && forallb (fun i => Nat.ltb i n) p.
Definition apply_perm (p : list nat) (s : list ref) : list ref :=
  match s with
  | [] => []
  | d :: _ => map (fun i => nth i s d) p
  end.

(** [References.SortAndMerge] where sort.Slice chose the order [perm]
    ([Err 1]: [perm] is not an order a correct sort could have produced -- the
    correspondence check then reports a mismatch).  Only the empty list returns
    early; a list of one reference goes through the loop as well (its ranges are
    sorted and merged), the comparator is never called on it. *)
Definition refs_sm (perm : list nat) (s : list ref) : outcome (list ref) :=
  match s with
  | [] => Ok []
  | _ =>
      if has_conflict s then Panic
      else if valid_perm (length s) perm && sorted_cmp (apply_perm perm s)
      then Ok (refs_sm_sorted (apply_perm perm s))
      else Err 1
  end.

(** stable insertion sort w.r.t. the comparator: one admissible choice *)
Fixpoint ins_ref (x : ref) (l : list ref) : list ref :=
  match l with
  | [] => [x]
  | y :: t => if is_lt (cmp_ref y x) then y :: ins_ref x t else x :: y :: t
  end.
Definition sort_refs (s : list ref) : list ref := fold_right ins_ref [] s.

(** ** References.Exclude *)

Definition nonzero (r : range) : bool := negb (rlen r =? 0).

Definition exclude_ranges (r0 r1 : list range) : list range :=
  filter nonzero (flat_map (fun r => range_exclude r r1) r0).

(** the two-pointer walk over the two sorted-merged lists *)
Fixpoint excl_walk (s0 : list ref) : list ref -> outcome (list ref) :=
  match s0 with
  | [] => fun _ => Ok []
  | r0 :: t0 =>
      fix inner (s1 : list ref) : outcome (list ref) :=
        match s1 with
        | [] => Ok (r0 :: t0)
        | r1 :: t1 =>
            match cmp_ref r0 r1 with
            | CPanic => Panic
            | CLt => bind (excl_walk t0 (r1 :: t1)) (fun rest => Ok (r0 :: rest))
            | CGt => inner t1
            | CEq =>
                bind (excl_walk t0 t1) (fun rest =>
                  match exclude_ranges (rranges r0) (rranges r1) with
                  | [] => Ok rest
                  | res => Ok (set_ranges r0 res :: rest)
                  end)
            end
        end
  end.

Definition refs_exclude (perm_s perm_e : list nat) (s exc : list ref) : outcome (list ref) :=
  match s with
  | [] => Ok []
  | _ =>
      bind (refs_sm perm_s s) (fun s0 =>
      bind (refs_sm perm_e exc) (fun s1 => excl_walk s0 s1))
  end.

(** ** Address mappers *)

Definition resolve1 (m : mapper) (size : Z) (r : range) : outcome (list range) :=
  match m with
  | MNil => Ok [r]
  | MPhys => Ok [mkR (wrap64 (wrap64 (roff r - W32) + size)) (rlen r)]
  | MCustom d sp fa =>
      if fa <=? roff r then Err 1
      else
        let o := wrap64 (roff r + d) in
        if sp && (2 <=? rlen r)
        then let h := rlen r / 2 in Ok [mkR o h; mkR (wrap64 (o + h)) (rlen r - h)]
        else Ok [mkR o (rlen r)]
  end.

(** [AddressMapper.Resolve(artifact, ranges...)] *)
Fixpoint resolve (m : mapper) (size : Z) (rs : list range) : outcome (list range) :=
  match rs with
  | [] => Ok []
  | r :: t => bind (resolve1 m size r) (fun a => bind (resolve m size t) (fun b => Ok (a ++ b)))
  end.

Definition is_nil (m : mapper) : bool := match m with MNil => true | _ => false end.

(** [References.Resolve]: in place, stops at the first error; returns the list
    as it is afterwards and whether an error was returned. *)
Fixpoint refs_resolve (s : list ref) : list ref * bool :=
  match s with
  | [] => ([], false)
  | r :: t =>
      if is_nil (rmap r) then let '(t', e) := refs_resolve t in (r :: t', e)
      else
        match resolve (rmap r) (zlen (acontent (rart r))) (rranges r) with
        | Ok rs => let '(t', e) := refs_resolve t in (mkRef (rart r) MNil rs :: t', e)
        | _ => (r :: t, true)
        end
  end.

(** ** Reference.RawBytes / References.RawBytes *)

Definition to_i64 (z : Z) : Z := if z <? 9223372036854775808 then z else z - W64.

(** inner loop over the mapped ranges of one merged range *)
Fixpoint read_mapped (a : art) (total : Z) (mrs : list range) (cur : Z) (acc : list Z)
  : outcome (Z * list Z) :=
  match mrs with
  | [] => Ok (cur, acc)
  | mr :: t =>
      let hi := wrap64 (cur + rlen mr) in
      if (hi <? cur) || (total <? hi) then Panic       (* result[curPos:curPos+mr.Length] *)
      else
        match art_readat a (repeat 0 (Z.to_nat (rlen mr))) (to_i64 (roff mr)) with
        | Ok rd =>
            if rd_n rd =? to_i64 (rlen mr)
            then read_mapped a total t hi (acc ++ rd_p rd)
            else Panic                                   (* both panics of the loop body *)
        | _ => Panic
        end
  end.

Fixpoint read_ranges (r : ref) (total : Z) (rs : list range) (cur : Z) (acc : list Z)
  : outcome (list Z) :=
  match rs with
  | [] => Ok acc
  | x :: t =>
      match resolve1 (rmap r) (zlen (acontent (rart r))) x with
      | Ok mrs =>
          match read_mapped (rart r) total mrs cur acc with
          | Ok (cur', acc') => read_ranges r total t cur' acc'
          | _ => Panic
          end
      | _ => Panic                                       (* panic(err) *)
      end
  end.

Definition total_len (rs : list range) : Z :=
  fold_left (fun t r => wrap64 (t + rlen r)) rs 0.

(** [Reference.RawBytes] (the allocation make([]byte, totalLength) is assumed
    to succeed). *)
Definition ref_rawbytes (r : ref) : outcome (list Z) :=
  let rs := ranges_sm (rranges r) in
  read_ranges r (total_len rs) rs 0 [].

(** [References.RawBytes] *)
Fixpoint refs_rawbytes (s : list ref) : outcome (list Z) :=
  match s with
  | [] => Ok []
  | r :: t => bind (ref_rawbytes r) (fun a => bind (refs_rawbytes t) (fun b => Ok (a ++ b)))
  end.

(** ** References.Ranges / BySystemArtifact *)

Definition refs_ranges (s : list ref) : list range := flat_map rranges s.
Definition by_artifact (s : list ref) (a : art) : list ref :=
  filter (fun r => art_eqb (rart r) a) s.
