(** Case language of the C10 correspondence check.  The Go harness
    (harness/cmd/c10) runs the REAL interpreter on a generated flow, projects the
    resulting bootengine.Log (before any validator touched it), runs the three
    REAL validators on it (in the order of validator.All()) and writes the
    projection plus what the validators returned; [check] re-runs the model. *)
From CSS Require Import Lib.Base Lib.Cases Model.Ranges Model.Refs Model.Validators Model.ValidatorsHeap.

(** artifact table entry: identity class, rank of the type name, is RawBytes, Size() *)
Definition part : Type := (Z * Z * bool * Z)%type.
(** reference: index into the artifact table, mapper, (offset, length) list *)
Definition pref : Type := (nat * mapper * list (Z * Z))%type.
(** step: actor identity, actor code, measured references, issue identities *)
Definition pstep : Type := (option Z * option (list pref) * list pref * list Z)%type.

(** observed reference.
    From the message text of the actors validator: (rank of the artifact type
    name, no mapper printed, (start, end) pairs as printed).
    From ErrNotFullCoverage: (artifact identity, mapper is nil, (start, End())). *)
Definition oref : Type := (Z * bool * list (Z * Z))%type.
(** observed issue: StepIdx, kind, non-measured, measured *)
Definition oissue : Type := (Z * Z * list oref * list oref)%type.

(** slice header (array index, offset, len, cap) and a reference of the log whose
    Ranges is that slice; backing arrays as (offset, length) lists *)
Definition psl : Type := (nat * nat * nat * nat)%type.
Definition hpref : Type := (nat * mapper * psl)%type.
Definition hpstep : Type := (option Z * option (list hpref) * list hpref * list Z)%type.
Definition pheap : Type := list (list (Z * Z)).
(** one run of a validator over the log: 0 = ValidatorActorsAreProtected,
    1 = ValidatorFinalCoverageIsComplete; what it returned; the contents of the
    backing arrays afterwards ([None]: unchanged) *)
Definition stage : Type := (nat * obs (list oissue) * option pheap)%type.

(** file node: node.Range.Offset, node.Range.Length, section types *)
Definition pfnode : Type := (Z * Z * list Z)%type.
(** a step whose measured references are given per MeasuredData entry *)
Definition rstep : Type := (option Z * option (list hpref) * list (list hpref) * list Z)%type.
(** one run and what it returned; [post]: the backing arrays afterwards ([None]: unchanged).
    [OIss k]: k = 0 ValidatorActorsAreProtected, otherwise ValidatorFinalCoverageIsComplete;
    [ORefs]: state.MeasuredData.References() after SortAndMerge() (by artifact identity);
    [OChain]: validator.All().Validate: the issues of the three validators in the
    order returned ([inr]: StepIdx and identity of an issue of the log) *)
Inductive opass :=
| OIss (k : nat) (o : obs (list oissue)) (post : option pheap)
| ORefs (o : obs (list oref)) (post : option pheap)
| OChain (o : obs (list (oissue + Z * Z))) (post : option pheap).

Inductive case : Type :=
| CLog (arts : list part) (steps : list pstep)
       (files : option (list pref))          (* UEFIFiles(...).Data: references / error *)
       (o_vap o_vfc : obs (list oissue)) (o_vni : list (Z * Z))
(** the log with its memory layout: [h0] = the backing arrays of all range
    slices of the log before any validator ran (whole capacity, shared arrays
    once); [stages] = the validators run one after another on the SAME log (the
    chain of validator.All(), then again) *)
| CHeap (arts : list part) (h0 : pheap) (steps : list hpstep)
        (files : option (list pref))
        (stages : list stage) (o_vni : list (Z * Z))
(** any sequence of runs over ONE log in ONE memory ([passes], in the order they
    were made); the references of every MeasuredData entry of a step are kept
    apart ([rstep]; MeasuredDataSlice.References() is part of the model); the
    result of UEFIFiles(...).Data is computed by the model from the file nodes of
    the parsed image ([files]: index of the image in the artifact table and every
    *uefi.File node in visiting order; [None]: no image / it does not parse) *)
| CRun (arts : list part) (h0 : pheap) (steps : list rstep)
       (files : option (nat * list pfnode))
       (passes : list opass) (o_vni : list (Z * Z)).

Definition mk_art (p : part) : art :=
  let '(i, tn, raw, size) := p in mkArt i tn raw (repeat 0 (Z.to_nat size)).
Definition no_art : art := mkArt (-1) (-1) false [].

Definition mk_ref (tbl : list art) (p : pref) : ref :=
  let '(i, m, rs) := p in mkRef (nth i tbl no_art) m (map (fun '(o, l) => mkR o l) rs).
Definition mk_step (tbl : list art) (p : pstep) : step :=
  let '(a, code, meas, iss) := p in
  mkStep a (option_map (map (mk_ref tbl)) code) (map (mk_ref tbl) meas) iss.

Definition pairs (r : ref) : list (Z * Z) := map (fun x => (roff x, rend x)) (rranges r).
Definition proj_tn (r : ref) : oref := (tname (rart r), is_nil (rmap r), pairs r).
Definition proj_id (r : ref) : oref := (aid (rart r), is_nil (rmap r), pairs r).

Definition pair_eqb (a b : Z * Z) : bool := (fst a =? fst b) && (snd a =? snd b).
Definition oref_eqb (a b : oref) : bool :=
  let '(i, n, l) := a in let '(i', n', l') := b in
  (i =? i') && Bool.eqb n n' && list_eqb pair_eqb l l'.
Definition oissue_eqb (a b : oissue) : bool :=
  let '(s, k, r, m) := a in let '(s', k', r', m') := b in
  (s =? s') && (k =? k') && list_eqb oref_eqb r r' && list_eqb oref_eqb m m'.

Definition proj_issue (f : ref -> oref) (v : vissue) : oissue :=
  (vi_step v, vi_kind v, map f (vi_refs v), map f (vi_meas v)).
Definition map_out {A B} (f : A -> B) (o : outcome A) : outcome B := bind o (fun a => Ok (f a)).

Definition mk_heap (p : pheap) : heap := map (map (fun '(o, l) => mkR o l)) p.
Definition mk_sl (p : psl) : sl := let '(a, o, n, c) := p in mkSl a o n c.
Definition mk_lref (tbl : list art) (sizes : list Z) (p : hpref) : lref :=
  let '(i, m, s) := p in
  mkL (nth i tbl no_art) (nth i sizes 0) m (mk_sl s).
Definition mk_hstep (tbl : list art) (sizes : list Z) (p : hpstep) : hstep :=
  let '(a, code, meas, iss) := p in
  mkHS a (option_map (map (mk_lref tbl sizes)) code) (map (mk_lref tbl sizes) meas) iss.

Definition heap_eqb (a b : heap) : bool := list_eqb (list_eqb range_eqb) a b.

(** Every stage starts from the heap the previous one left (as observed).  The
    slice-level model must reproduce what the validator returned AND the heap
    afterwards; the value-level model of Model/Validators.v (the one the theorems
    of Props/C10.v are about), applied to what the log reads as at that moment,
    must reproduce the returned issues as well, on every pass and for every
    memory layout. *)
Fixpoint check_stages (L : list hstep) (fl : outcome (list ref)) (h : heap)
         (st : list stage) : bool :=
  match st with
  | [] => true
  | (k, o, post) :: t =>
      let hp := match post with None => h | Some a => mk_heap a end in
      let '(h', out) := match k with O => hvap h L | _ => hvfc h fl L end in
      let pr := match k with O => proj_tn | _ => proj_id end in
      obs_match (list_eqb oissue_eqb) o (map_out (map (proj_issue pr)) out)
      && match out with Ok _ => heap_eqb h' hp | _ => true end
      && obs_match (list_eqb oissue_eqb) o
           (map_out (map (proj_issue pr)) (match k with O => vap (val_log h L) | _ => vfc fl (val_log h L) end))
      && check_stages L fl hp t
  end.

Definition mk_fnode (p : pfnode) : fnode := let '(o, n, secs) := p in mkFN o n secs.
Definition mk_rstep (tbl : list art) (sizes : list Z) (p : rstep) : hstep :=
  let '(a, code, datas, iss) := p in
  mkHS a (option_map (map (mk_lref tbl sizes)) code) (map (mk_lref tbl sizes) (mds_refs datas)) iss.

Definition pass_of (fl : outcome (list ref)) (o : opass) : pass :=
  match o with
  | OIss O _ _ => PVap
  | OIss _ _ _ => PVfc fl
  | ORefs _ _ => PSm
  | OChain _ _ => PAll fl
  end.
Definition post_of (o : opass) : option pheap :=
  match o with OIss _ _ p => p | ORefs _ p => p | OChain _ p => p end.

(** What is observed of an issue of the actors validator: StepIdx and whether its
    error wraps the error of a Resolve call (model kinds 1, 2, 3: observed class 1) or
    nothing (kind 4, "not protected").  The ranges such an issue names exist in its
    message text only; the wording of a message is not behaviour, so nothing is read
    out of it (a reworded message must not change what is observed).  An issue of
    the final-coverage validator is observed through the fields of ErrNotFullCoverage. *)
Definition proj_vap (v : vissue) : oissue := (vi_step v, (if vi_kind v =? 4 then 4 else 1), [], []).
Definition proj_chain (x : vissue + Z * Z) : oissue + Z * Z :=
  match x with
  | inl v => inl (if vi_kind v <=? 4 then proj_vap v else proj_issue proj_id v)
  | inr p => inr p
  end.
Definition centry_eqb (a b : oissue + Z * Z) : bool :=
  match a, b with
  | inl x, inl y => oissue_eqb x y
  | inr x, inr y => pair_eqb x y
  | _, _ => false
  end.

Definition pres_match (o : opass) (r : pres) : bool :=
  match o, r with
  | OIss k ob _, RIss m =>
      obs_match (list_eqb oissue_eqb) ob (map_out (map (match k with O => proj_vap | _ => proj_issue proj_id end)) m)
  | ORefs ob _, RRefs m => obs_match (list_eqb oref_eqb) ob (map_out (map proj_id) m)
  | OChain ob _, RChain m => obs_match (list_eqb centry_eqb) ob (map_out (map proj_chain) m)
  | _, _ => false
  end.
Definition pres_ok (r : pres) : bool :=
  match r with RIss (Ok _) => true | RRefs (Ok _) => true | RChain (Ok _) => true | _ => false end.

(** Every run starts from the memory the previous one left (as observed).  The
    slice-level model must reproduce what the run returned AND the memory
    afterwards; the value-level model, applied to what the log reads as at that
    moment, must reproduce what the run returned as well. *)
Fixpoint check_passes (L : list hstep) (fl : outcome (list ref)) (h : heap) (ps : list opass) : bool :=
  match ps with
  | [] => true
  | o :: t =>
      let p := pass_of fl o in
      let hp := match post_of o with None => h | Some a => mk_heap a end in
      let '(h', r) := run_pass h L p in
      pres_match o r
      && (if pres_ok r then heap_eqb h' hp else true)
      && pres_match o (vpass (val_log h L) p)
      && check_passes L fl hp t
  end.

Definition check (c : case) : bool :=
  match c with
  | CRun arts h0 steps files passes o_vni =>
      let tbl := map mk_art arts in
      let L := map (mk_rstep tbl (map (fun p : part => snd p) arts)) steps in
      let h := mk_heap h0 in
      let fl := match files with
                | Some (i, nodes) => uefi_files (nth i tbl no_art) (map mk_fnode nodes)
                | None => Err 1
                end in
      check_passes L fl h passes
      && list_eqb pair_eqb o_vni (vni (val_log h L))
  | CHeap arts h0 steps files stages o_vni =>
      let tbl := map mk_art arts in
      let L := map (mk_hstep tbl (map (fun p : part => snd p) arts)) steps in
      let h := mk_heap h0 in
      let fl := match files with Some f => Ok (map (mk_ref tbl) f) | None => Err 1 end in
      check_stages L fl h stages
      && list_eqb pair_eqb o_vni (vni (val_log h L))
  | CLog arts steps files o_vap o_vfc o_vni =>
      let tbl := map mk_art arts in
      let l := map (mk_step tbl) steps in
      let fl := match files with Some f => Ok (map (mk_ref tbl) f) | None => Err 1 end in
      obs_match (list_eqb oissue_eqb) o_vap (map_out (map (proj_issue proj_tn)) (vap l))
      && obs_match (list_eqb oissue_eqb) o_vfc (map_out (map (proj_issue proj_id)) (vfc fl l))
      && list_eqb pair_eqb o_vni (vni l)
  end.

Definition mismatches := mismatches_by check.
