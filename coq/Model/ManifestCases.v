(** Case language of the C18 correspondence check.  The Go harness
    (harness/cmd/c18) writes [coq/gen/Cases_C18_*.v]; every case holds the inputs
    of one glue decision, lookup tables that instantiate the abstract (third
    party) functions of Model/Manifest.v for that case, and what the
    implementation did.  [check] re-runs the model.

    Tables are filled by the harness from sources other than the function under
    test: fiano's KeySignature.Verify / WriteTo / offset accessors on the parsed
    structure for [verify_raw]/[ser]/offsets (the glue under test is the
    suite's choice of WHAT to serialise, WHERE to cut and WHICH message to
    check), Go's crypto/sha*, crypto/cipher and crypto/x509 for H, AEAD open and
    key parsing. *)
From CSS Require Import Lib.Base Lib.Cases Model.Manifest Model.ManifestOrder Model.ManifestRead.
From Coq Require Strings.Byte.

(** Compact byte-string literals: the shards write [zs [x5f; x4b; ...]] with the
    constructors of [Coq.Init.Byte.byte] (a list of global references elaborates
    several times faster than a list of [Z] numerals), and share a file, its
    re-serialisation and their prefixes inside one case with [let] / [firstn]. *)
Definition zs (l : list Coq.Init.Byte.byte) : bytes :=
  map (fun b => Z.of_N (Coq.Strings.Byte.to_N b)) l.

(** A parsed manifest as the tables describe it. *)
Record pman := mk_pman {
  pm_ser : bytes;      (* WriteTo of the parsed structure *)
  pm_keysig : Z;       (* KeyAndSignatureOffset() / rehashed BPMH.KeySignatureOffset *)
  pm_pmse : Z;         (* PMSEOffset() (BPM) *)
  pm_pmseks : Z;       (* PMSE.KeySignatureOffset() (BPM) *)
  pm_pkhash : Z        (* PubKeyHashAlg (CBnT KM) *)
}.

Fixpoint lookup_bytes {A} (k : bytes) (t : list (bytes * A)) : option A :=
  match t with
  | [] => None
  | (k', v) :: r => if zlist_eqb k k' then Some v else lookup_bytes k r
  end.

Fixpoint lookup_hash (alg : Z) (msg : bytes) (t : list (Z * bytes * bytes)) : option bytes :=
  match t with
  | [] => None
  | (a, m, d) :: r => if (a =? alg) && zlist_eqb m msg then Some d else lookup_hash alg msg r
  end.

Fixpoint lookup3 {A} (a b c : bytes) (t : list (bytes * bytes * bytes * A)) : option A :=
  match t with
  | [] => None
  | (a', b', c', v) :: r =>
      if zlist_eqb a a' && zlist_eqb b b' && zlist_eqb c c' then Some v else lookup3 a b c r
  end.

(** The environment of one verify case: [parse] yields what NewKM/NewBPM
    yielded, [verify_raw] is KeySignature.Verify tabulated on messages. *)
Definition tbl_env (parsed : option pman) (vt : list (bytes * bool)) : env := {|
  M := pman; PK := unit; SK := unit;
  ser := pm_ser;
  parse := fun _ _ _ => parsed;
  prep := fun _ _ m => m;
  keysig_off := fun m => Z.to_nat (pm_keysig m);
  pmse_off := fun m => Z.to_nat (pm_pmse m);
  pmse_ks_off := fun m => Z.to_nat (pm_pmseks m);
  pkhash := pm_pkhash;
  store := fun _ _ m _ _ => m;
  key_of := fun _ => tt;
  sig_of := fun _ => mk_sig 0 0 [];
  pub := fun _ => tt;
  sign_raw := fun _ _ _ => None;
  verify_raw := fun _ _ _ msg => match lookup_bytes msg vt with Some b => b | None => false end
|}.

(** The environment of a verify-FILE case: [parsed] is what fiano's reader gave the
    harness on exactly the bytes [file] (DetectBGV + Manifest.ReadFrom called by the
    harness on the whole file, NOT through NewKM/NewBPM); the table answers for
    these bytes only, so a constructor that hands anything else to the codec (a
    prefix, a trimmed copy: Model/ManifestRead.v) does not get this answer. *)
Definition tbl_env_at (file : bytes) (parsed : option pman) (vt : list (bytes * bool)) : env := {|
  M := pman; PK := unit; SK := unit;
  ser := pm_ser;
  parse := fun _ _ f => if zlist_eqb f file then parsed else None;
  prep := fun _ _ m => m;
  keysig_off := fun m => Z.to_nat (pm_keysig m);
  pmse_off := fun m => Z.to_nat (pm_pmse m);
  pmse_ks_off := fun m => Z.to_nat (pm_pmseks m);
  pkhash := pm_pkhash;
  store := fun _ _ m _ _ => m;
  key_of := fun _ => tt;
  sig_of := fun _ => mk_sig 0 0 [];
  pub := fun _ => tt;
  sign_raw := fun _ _ _ => None;
  verify_raw := fun _ _ _ msg => match lookup_bytes msg vt with Some b => b | None => false end
|}.

(** The environment of a signing-entry case: fiano's NewSignatureData accepts
    exactly the scheme ids in [signable] for the key of the case (tabulated by the
    harness by calling fiano directly, for every id a name can stand for). *)
Definition sign_env (signable : list Z) : env := {|
  M := pman; PK := unit; SK := unit;
  ser := pm_ser;
  parse := fun _ _ _ => None;
  prep := fun _ _ m => m;
  keysig_off := fun m => Z.to_nat (pm_keysig m);
  pmse_off := fun m => Z.to_nat (pm_pmse m);
  pmse_ks_off := fun m => Z.to_nat (pm_pmseks m);
  pkhash := pm_pkhash;
  store := fun _ _ m _ _ => m;
  key_of := fun _ => tt;
  sig_of := fun _ => mk_sig 0 0 [];
  pub := fun _ => tt;
  sign_raw := fun _ sch _ => if existsb (Z.eqb sch) signable then Some [] else None;
  verify_raw := fun _ _ _ _ => false
|}.

Definition gen_of_Z (z : Z) : gen := if z =? 2 then V20 else V10.
Definition doc_of_Z (z : Z) : doc := if z =? 1 then BPM else KM.

Definition table_H (ht : list (Z * bytes * bytes)) (alg : Z) (msg : bytes) : bytes :=
  match lookup_hash alg msg ht with Some d => d | None => [] end.

Definition key_env (hpw : list (bytes * bytes))
           (st : list (bytes * bytes * bytes * bytes))
           (ot : list (bytes * bytes * bytes * option bytes))
           (pt : list (bytes * bool)) : kenv := {|
  KSK := unit;
  Hpw := fun pw => match lookup_bytes pw hpw with Some k => k | None => [] end;
  seal := fun k n m => match lookup3 k n m st with Some c => c | None => [] end;
  open := fun k n c => match lookup3 k n c ot with Some r => r | None => None end;
  parse_key := fun p => match lookup_bytes p pt with Some true => Some tt | _ => None end
|}.

Inductive case : Type :=
(* bgheader.DetectBGV through NewKM/NewBPM: Some 1 / Some 2 / None (error) *)
| CDetect (file : bytes) (r : option Z)
(* SignKM/SignBPM: offsets of the prepared structure, parsed scheme and hash
   request; observed: length of the prefix the produced signature verifies on
   (found by the harness with crypto/rsa over all prefixes) and the HashAlg
   stored in the output *)
| CSign (g d : Z) (m : pman) (sch req : Z) (signed_len : Z) (stored : Z)
(* bg./cbnt.GetAlgFromString on a name: Some id / None (error) *)
| CParseName (g : Z) (name : bytes) (r : option Z)
(* a signing entry point called with NAMES (SignKM(signAlgo, key) / SignBPM(signAlgo,
   hashAlgo, key)) on an RSA key: offsets of the prepared structure, the two names,
   the scheme ids fiano signs with for this key; observed: outcome class, and on
   success the length of the prefix the signature verifies on and the HashAlg
   stored in the output *)
| CSignEntry (g d : Z) (m : pman) (sname hname : bytes) (signable : list Z)
             (r : obs unit) (signed_len : Z) (stored : Z)
(* NewKM/NewBPM + VerifyKM/VerifyBPM on a file; [parsed] = fiano's reader on the whole
   file, obtained by the harness without the suite's constructors *)
| CVerifyFile (d : Z) (file : bytes) (parsed : option pman) (vt : list (bytes * bool)) (r : obs unit)
(* VerifyKM/VerifyBPM on a BootGuard value with an arbitrary Version *)
| CVerifyStruct (version d : Z) (m : pman) (vt : list (bytes * bool)) (r : obs unit)
(* KMHasBPMHash / BPMKeyMatchKMHash, BG 1.0 *)
| CBindBG (alg : Z) (buf : bytes) (keyalg : Z) (keydata : bytes)
          (ht : list (Z * bytes * bytes)) (has mt : obs bool)
(* ... CBnT: entries are (usage, alg, buffer) *)
| CBindCBNT (hs : list (Z * Z * bytes)) (keyalg : Z) (keydata : bytes)
            (ht : list (Z * bytes * bytes)) (has mt : obs bool)
(* DecryptPrivKey data password *)
| CDecrypt (data pw : bytes) (hpw : list (bytes * bytes))
           (ot : list (bytes * bytes * bytes * option bytes)) (pt : list (bytes * bool)) (r : obs unit)
(* writePrivKeyToFile: password, PEM, produced file (its first 12 bytes are the nonce) *)
| CEncrypt (pw pem out : bytes) (hpw : list (bytes * bytes)) (st : list (bytes * bytes * bytes * bytes))
(* the life of one KM object: the BPM-key hash state it starts with (BGkm.BPKey /
   CBNTkm.Hash), then a sequence of steps -- GetBPMPubHash calls and operations
   that do not concern the hash (SignKM, WriteKM + NewKM, VerifyKM, SVN/ID
   change) -- each with what the call returned and the state observed on the
   object afterwards *)
| CKmLife (st0 : kmstate) (steps : list (kmstep * obs unit * kmstate)) (ht : list (Z * bytes * bytes))
(* the process configuration (Model/ManifestOrder.v): [c0] what the model says the
   process holds at the start of a session, [obs0] what the harness read from
   fiano's two package variables at that moment, then the entry points of
   pkg/provisioning/bootguard called one after the other, each with the
   configuration read after the call returned (or panicked) *)
| CConf (c0 obs0 : pconf) (steps : list (entry * pconf))
(* NewBPM + VerifyBPM on a file put together from whole elements of a verifying
   signed BPM of generation [g] (element = (position of its structure ID in the
   documented order or -1 for an unknown ID, number of the element in the signed
   file)), in a process that started with [c0] and called [hist] before *)
| COrder (g : Z) (c0 : pconf) (hist : list entry) (orig mut : list (Z * Z)) (r : obs unit).

Definition unit_eqb (_ _ : unit) : bool := true.

Definition opt_Z_eqb (a b : option Z) : bool :=
  match a, b with
  | Some x, Some y => x =? y
  | None, None => true
  | _, _ => false
  end.

(** the message the model hands to [verify_raw] must be one the harness tabulated *)
Definition covered (E : env) (msg : bytes) (vt : list (bytes * bool)) : bool :=
  match lookup_bytes msg vt with Some _ => true | None => false end.

Definition kmhash_eqb (a b : kmhash) : bool :=
  (kh_usage a =? kh_usage b) && (kh_alg a =? kh_alg b) && zlist_eqb (kh_buf a) (kh_buf b).

Definition kmstate_eqb (a b : kmstate) : bool :=
  match a, b with
  | KmBG a1 b1, KmBG a2 b2 => (a1 =? a2) && zlist_eqb b1 b2
  | KmCBNT h1, KmCBNT h2 => list_eqb kmhash_eqb h1 h2
  | _, _ => false
  end.

(** run the model along the observed history; every step must agree in outcome
    and in the state it leaves (the model continues from ITS state) *)
Fixpoint life_ok (H : Z -> bytes -> bytes) (st : kmstate) (steps : list (kmstep * obs unit * kmstate)) : bool :=
  match steps with
  | [] => true
  | (s, r, st_obs) :: t =>
      let st' := km_step H st s in
      obs_match unit_eqb r (km_step_outcome H st s) && kmstate_eqb st' st_obs && life_ok H st' t
  end.

Definition pconf_eqb (a b : pconf) : bool :=
  Bool.eqb (strict_bg a) (strict_bg b) && Bool.eqb (strict_cbnt a) (strict_cbnt b).

(** the model continues from ITS configuration *)
Fixpoint conf_ok (c : pconf) (steps : list (entry * pconf)) : bool :=
  match steps with
  | [] => true
  | (e, o) :: t => let c' := ep_conf e c in pconf_eqb c' o && conf_ok c' t
  end.

Definition check (c : case) : bool :=
  match c with
  | CDetect file r => opt_Z_eqb (option_map version_of_gen (detect file)) r
  | CSign g d m sch req sl st =>
      let E := tbl_env None [] in
      let g' := gen_of_Z g in let d' := doc_of_Z d in
      (Z.of_nat (sign_cut E g' d' m) =? sl) &&
      (stored_hash g' sch (req_hash E d' m req) =? st)
  | CParseName g name r => opt_Z_eqb (parse_alg (gen_of_Z g) name) r
  | CSignEntry g d m sname hname signable r sl st =>
      let E := sign_env signable in
      let g' := gen_of_Z g in let d' := doc_of_Z d in
      match sign_entry E g' d' m sname hname tt, r with
      | Ok _, OOk _ =>
          (Z.of_nat (sign_cut E g' d' m) =? sl) &&
          match parse_alg g' sname,
                (match g', d' with V20, BPM => parse_alg V20 hname | _, _ => Some 0 end) with
          | Some sch, Some req => stored_hash g' sch (req_hash E d' m req) =? st
          | _, _ => false
          end
      | Err _, OErr => true
      | _, _ => false
      end
  | CVerifyFile d file parsed vt r =>
      let E := tbl_env_at file parsed vt in
      let d' := doc_of_Z d in
      obs_match unit_eqb r (verify_file_via E (fun f => f) d' file) &&
      match detect file, parsed with
      | Some g, Some m => covered E (verified_message E g d' m) vt
      | _, _ => true
      end
  | CVerifyStruct version d m vt r =>
      let E := tbl_env None vt in
      let d' := doc_of_Z d in
      obs_match unit_eqb r (verify_struct E version d' m) &&
      match gen_of_version version with
      | Some g => covered E (verified_message E g d' m) vt
      | None => true
      end
  | CBindBG alg buf keyalg keydata ht has mt =>
      let H := table_H ht in
      obs_match Bool.eqb has (bg_km_has_bpm_hash buf) &&
      obs_match Bool.eqb mt (bg_key_match H alg buf keyalg keydata)
  | CBindCBNT hs keyalg keydata ht has mt =>
      let H := table_H ht in
      let hs' := map (fun t => match t with (u, a, b) => mk_kmhash u a b end) hs in
      obs_match Bool.eqb has (cbnt_km_has_bpm_hash hs') &&
      obs_match Bool.eqb mt (cbnt_key_match H hs' keyalg keydata)
  | CDecrypt data pw hpw ot pt r =>
      let K := key_env hpw [] ot pt in
      obs_match unit_eqb r (decrypt_priv K data pw)
  | CEncrypt pw pem out hpw st =>
      let K := key_env hpw st [] [] in
      zlist_eqb (encrypt_priv K pw (firstn nonce_size out) pem) out
  | CKmLife st0 steps ht => life_ok (table_H ht) st0 steps
  | CConf c0 obs0 steps => pconf_eqb c0 obs0 && conf_ok c0 steps
  | COrder g c0 hist orig mut r =>
      obs_match unit_eqb r (session_verdict c0 hist (gen_of_Z g) orig mut)
  end.

Definition mismatches := mismatches_by check.
