(** Model of pkg/registers serialisation: registry.New, ValueBytes /
    ValueFromBytes (legacy JSON format), valueToHex / valueFromHex (YAML
    format), Registers.Sort.  JSON/YAML/base64 libraries are transport: a
    collection is a list of (ID, raw value); what the libraries carry is the
    byte string / hexadecimal string the model computes. *)
From Coq Require Import NArith List String Ascii Bool.
Import ListNotations.
Open Scope N_scope.

(** What a call can do (errors carry no payload here). *)
Inductive res (A : Type) := ROk (a : A) | RErr | RPanic.
Arguments ROk {A} a. Arguments RErr {A}. Arguments RPanic {A}.

Record rinfo := {
  r_id : string;
  r_bits : N;      (* width of the Go type holding the raw value *)
  r_ser : nat;     (* bytes written by ValueBytes = width of Raw() *)
  r_parser : nat;  (* bytes read by ValueFromBytes (which parser table lists the ID); 32 = the key *)
  r_addr : N       (* Address(), the primary sort key *)
}.

Open Scope string_scope.
Definition registry : list rinfo := [
  {| r_id := "ACM_POLICY_STATUS"; r_bits := 64; r_ser := 8; r_parser := 8; r_addr := 4275241848 |};
  {| r_id := "ACM_STATUS"; r_bits := 32; r_ser := 8; r_parser := 8; r_addr := 4275241768 |};
  {| r_id := "BTG_SACM_INFO"; r_bits := 64; r_ser := 8; r_parser := 8; r_addr := 314 |};
  {| r_id := "BOOT_GUARD_PBEC"; r_bits := 64; r_ser := 8; r_parser := 8; r_addr := 313 |};
  {| r_id := "IA32_DEBUG_INTERFACE"; r_bits := 64; r_ser := 8; r_parser := 8; r_addr := 3200 |};
  {| r_id := "IA32_FEATURE_CONTROL"; r_bits := 64; r_ser := 8; r_parser := 8; r_addr := 58 |};
  {| r_id := "IA32_MTRRCAP"; r_bits := 64; r_ser := 8; r_parser := 8; r_addr := 254 |};
  {| r_id := "IA32_PLATFORM_ID"; r_bits := 64; r_ser := 8; r_parser := 8; r_addr := 23 |};
  {| r_id := "IA32_SMRR_PHYSBASE"; r_bits := 64; r_ser := 8; r_parser := 8; r_addr := 498 |};
  {| r_id := "IA32_SMRR_PHYSMASK"; r_bits := 64; r_ser := 8; r_parser := 8; r_addr := 499 |};
  {| r_id := "MP0_C2P_MSG_37"; r_bits := 32; r_ser := 4; r_parser := 4; r_addr := 0 |};
  {| r_id := "MP0_C2P_MSG_38"; r_bits := 32; r_ser := 4; r_parser := 4; r_addr := 0 |};
  {| r_id := "TXT.SPAD"; r_bits := 64; r_ser := 8; r_parser := 8; r_addr := 4275241120 |};
  {| r_id := "TXT.DPR"; r_bits := 32; r_ser := 4; r_parser := 4; r_addr := 4275241776 |};
  {| r_id := "TXT.DIDVID"; r_bits := 64; r_ser := 8; r_parser := 8; r_addr := 4275241232 |};
  {| r_id := "TXT.ERRORCODE"; r_bits := 32; r_ser := 4; r_parser := 4; r_addr := 4275241008 |};
  {| r_id := "TXT.ESTS"; r_bits := 8; r_ser := 1; r_parser := 1; r_addr := 4275240968 |};
  {| r_id := "TXT.HEAP.BASE"; r_bits := 32; r_ser := 4; r_parser := 4; r_addr := 4275241728 |};
  {| r_id := "TXT.HEAP.SIZE"; r_bits := 32; r_ser := 4; r_parser := 4; r_addr := 4275241736 |};
  {| r_id := "TXT.MLE.JOIN"; r_bits := 32; r_ser := 4; r_parser := 4; r_addr := 4275241616 |};
  {| r_id := "TXT.SINIT.BASE"; r_bits := 32; r_ser := 4; r_parser := 4; r_addr := 4275241584 |};
  {| r_id := "TXT.SINIT.SIZE"; r_bits := 32; r_ser := 4; r_parser := 4; r_addr := 4275241592 |};
  {| r_id := "TXT.STS"; r_bits := 64; r_ser := 8; r_parser := 8; r_addr := 4275240960 |};
  {| r_id := "TXT.VER.EMIF"; r_bits := 32; r_ser := 4; r_parser := 4; r_addr := 4275241472 |};
  {| r_id := "TXT.VER.FSBIF"; r_bits := 32; r_ser := 4; r_parser := 4; r_addr := 4275241216 |};
  {| r_id := "TXT.PUBLIC.KEY"; r_bits := 256; r_ser := 32; r_parser := 32; r_addr := 4275241984 |}
].
Definition key_id : string := "TXT.PUBLIC.KEY".
Close Scope string_scope.

Fixpoint lookup (id : string) (l : list rinfo) : option rinfo :=
  match l with
  | [] => None
  | r :: t => if String.eqb id (r_id r) then Some r else lookup id t
  end.

(** a register value: identifier and raw value (the key as a little-endian number) *)
Definition reg := (string * N)%type.

(** * little-endian bytes *)
Fixpoint le_bytes (n : nat) (x : N) : list N :=
  match n with
  | O => []
  | S n' => (x mod 256) :: le_bytes n' (x / 256)
  end.
Fixpoint le_value (b : list N) : N :=
  match b with
  | [] => 0
  | x :: t => x + 256 * le_value t
  end.

Definition be_value (b : list N) : N := le_value (rev b).

(** [ValueBytes]: Raw() rendered little-endian (the key: its 32 bytes). *)
Definition value_bytes (r : reg) : res (list N) :=
  match lookup (fst r) registry with
  | None => RErr
  | Some i => ROk (le_bytes (r_ser i) (snd r))
  end.

(** [ValueFromBytes]: the key needs exactly 32 bytes; the others read a
    fixed-width little-endian integer from the front (short input is an error,
    extra bytes are ignored) and convert it to the register's Go type. *)
Definition value_from_bytes (id : string) (b : list N) : res reg :=
  match lookup id registry with
  | None => RErr
  | Some i =>
      if String.eqb id key_id then
        if Nat.eqb (List.length b) 32 then ROk (id, le_value b) else RErr
      else
        if Nat.ltb (List.length b) (r_parser i) then RErr
        else ROk (id, le_value (firstn (r_parser i) b) mod 2 ^ r_bits i)
  end.

(** values handed to [registers.New] *)
Inductive value :=
| VNil
| VUint (bits : N) (n : N)     (* any Go integer type *)
| VBytes (b : list N)          (* []byte *)
| VOther.                      (* string, bool, other slices, ... *)

Definition new (id : string) (v : value) : res reg :=
  match lookup id registry with
  | None => RErr                 (* unknown register ID *)
  | Some i =>
      match v with
      | VNil => ROk (id, 0)
      | VUint _ n => if String.eqb id key_id then RErr else ROk (id, n mod 2 ^ r_bits i)
      | VBytes b => if String.eqb id key_id
                    then (if Nat.eqb (List.length b) 32 then ROk (id, le_value b) else RErr)
                    else RErr
      | VOther => RErr
      end
  end.

(** [Value()] of a register, as [New] receives it back *)
Definition own_value (r : reg) : value :=
  match lookup (fst r) registry with
  | None => VOther
  | Some i => if String.eqb (fst r) key_id then VBytes (le_bytes 32 (snd r))
              else VUint (8 * N.of_nat (r_ser i)) (snd r)
  end.

Definition bind {A B} (x : res A) (f : A -> res B) : res B :=
  match x with ROk a => f a | RErr => RErr | RPanic => RPanic end.

Fixpoint mapM {A B} (f : A -> res B) (l : list A) : res (list B) :=
  match l with
  | [] => ROk []
  | a :: t => bind (f a) (fun b => bind (mapM f t) (fun t' => ROk (b :: t')))
  end.

(** legacy JSON: [{id, base64(ValueBytes)}], order preserved *)
Definition json_roundtrip (regs : list reg) : res (list reg) :=
  mapM (fun r => bind (value_bytes r) (fun b =>
                 bind (value_from_bytes (fst r) b) (fun r' =>
                 new (fst r') (own_value r')))) regs.

(** * hexadecimal: strconv.FormatUint(x, 16) / ParseUint(h, 16, bits) *)
Definition hex_digit (d : N) : ascii :=
  ascii_of_N (if d <? 10 then 48 + d else 87 + d).
Definition digit_val (c : ascii) : option N :=
  let n := N_of_ascii c in
  if (48 <=? n) && (n <=? 57) then Some (n - 48)
  else if (97 <=? n) && (n <=? 102) then Some (n - 87)
  else if (65 <=? n) && (n <=? 70) then Some (n - 55)
  else None.

(** most significant digit first; [fuel] bounds the number of digits *)
Fixpoint to_hex_aux (fuel : nat) (x : N) (acc : string) : string :=
  match fuel with
  | O => acc
  | S f => let acc' := String (hex_digit (x mod 16)) acc in
           if x / 16 =? 0 then acc' else to_hex_aux f (x / 16) acc'
  end.
Definition to_hex (x : N) : string := to_hex_aux (S (N.to_nat (N.size x))) x EmptyString.

Fixpoint of_hex_aux (s : string) (acc : N) : option N :=
  match s with
  | EmptyString => Some acc
  | String c r => match digit_val c with
                  | Some d => of_hex_aux r (16 * acc + d)
                  | None => None
                  end
  end.
(** ParseUint: empty string and invalid digits are errors; so is a value that does not fit [bits] *)
Definition parse_hex (bits : N) (s : string) : option N :=
  match s with
  | EmptyString => None
  | _ => match of_hex_aux s 0 with
         | Some v => if v <? 2 ^ bits then Some v else None
         | None => None
         end
  end.

(** hex.EncodeToString / DecodeString for the key *)
Fixpoint bytes_to_hex (b : list N) : string :=
  match b with
  | [] => EmptyString
  | x :: t => String (hex_digit (x / 16)) (String (hex_digit (x mod 16)) (bytes_to_hex t))
  end.
Fixpoint hex_to_bytes (s : string) : option (list N) :=
  match s with
  | EmptyString => Some []
  | String a (String b r) =>
      match digit_val a, digit_val b, hex_to_bytes r with
      | Some x, Some y, Some t => Some ((16 * x + y) :: t)
      | _, _, _ => None
      end
  | _ => None
  end.

(** YAML value of a register ("0x" prefix left out) and the way back *)
Definition yaml_value (r : reg) : res string :=
  match lookup (fst r) registry with
  | None => RErr
  | Some i => if String.eqb (fst r) key_id then ROk (bytes_to_hex (le_bytes 32 (snd r)))
              else ROk (to_hex (snd r))
  end.
Definition yaml_unvalue (id : string) (h : string) : res reg :=
  match lookup id registry with
  | None => RErr
  | Some i =>
      if String.eqb id key_id then
        (* The YAML document carries the value as a plain (unquoted) scalar; yaml.v3
           resolves a plain 0x... scalar that fits 64 bits as an INTEGER, and
           registers.New rejects an integer for the byte-array register
           (known finding C16-yaml-small-public-key).  Faithful: *)
        match hex_to_bytes h with
        | Some b => if be_value b <? 2 ^ 64 then RErr else new id (VBytes b)
        | None => RErr
        end
      else
        match parse_hex (8 * N.of_nat (r_ser i)) h with
        | Some v => new id (VUint (8 * N.of_nat (r_ser i)) v)
        | None => RErr
        end
  end.

(** [Registers.Sort]: by address, then by ID (insertion sort; the keys of a
    duplicate-free collection are distinct, so every sort gives this list) *)
Definition addr_of (r : reg) : N :=
  match lookup (fst r) registry with Some i => r_addr i | None => 0 end.
Definition reg_leb (a b : reg) : bool :=
  if addr_of a =? addr_of b then String.leb (fst a) (fst b) else addr_of a <? addr_of b.
Fixpoint insert (r : reg) (l : list reg) : list reg :=
  match l with
  | [] => [r]
  | h :: t => if reg_leb r h then r :: l else h :: insert r t
  end.
Definition sort_regs (l : list reg) : list reg := fold_right insert [] l.

(** YAML: map ID -> "0x…"; the result is sorted. A later duplicate ID overwrites an earlier one. *)
Fixpoint dedup_last (l : list reg) : list reg :=
  match l with
  | [] => []
  | r :: t => if existsb (fun r' => String.eqb (fst r') (fst r)) t then dedup_last t else r :: dedup_last t
  end.
Definition yaml_roundtrip (regs : list reg) : res (list reg) :=
  bind (mapM (fun r => bind (yaml_value r) (fun h => yaml_unvalue (fst r) h)) (dedup_last regs))
       (fun l => ROk (sort_regs l)).
