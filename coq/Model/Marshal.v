(** Model of pkg/registers serialisation: registry.New, ValueBytes /
    ValueFromBytes (legacy JSON format), valueToHex / valueFromHex (YAML
    format), Registers.Sort.  The JSON/YAML libraries are transport: a
    collection is a list of (ID, raw value); what the libraries carry is the
    byte string / hexadecimal string the model computes.
    Second half of the file: the textual forms of one YAML value (valueUnpack /
    valueUnpackString with its case-sensitive prefix switch, valueFromHex,
    valueFromBase64 over a concrete std base64 decoder), the yaml.v3 resolution of
    the plain scalars in question, whole documents (YAML mapping, legacy JSON list)
    and Unmarshal into a destination that already holds registers. *)
From Coq Require Import NArith List String Ascii Bool.
Import ListNotations.
Open Scope N_scope.

(** What a call can do (errors carry no payload here). *)
Inductive res (A : Type) := ROk (a : A) | RErr | RPanic.
Arguments ROk {A} a. Arguments RErr {A}. Arguments RPanic {A}.

Record rinfo := {
  r_id : string;
  r_bits : N;      (* width of the Go type holding the raw value *)
  r_ser : nat;     (* bytes written by ValueBytes = width of Raw() *)
  r_parser : nat;  (* bytes read by ValueFromBytes (which parser table lists the ID); 32 = the key *)
  r_addr : N       (* Address(), the primary sort key *)
}.

Open Scope string_scope.
Definition registry : list rinfo := [
  {| r_id := "ACM_POLICY_STATUS"; r_bits := 64; r_ser := 8; r_parser := 8; r_addr := 4275241848 |};
  {| r_id := "ACM_STATUS"; r_bits := 32; r_ser := 8; r_parser := 8; r_addr := 4275241768 |};
  {| r_id := "BTG_SACM_INFO"; r_bits := 64; r_ser := 8; r_parser := 8; r_addr := 314 |};
  {| r_id := "BOOT_GUARD_PBEC"; r_bits := 64; r_ser := 8; r_parser := 8; r_addr := 313 |};
  {| r_id := "IA32_DEBUG_INTERFACE"; r_bits := 64; r_ser := 8; r_parser := 8; r_addr := 3200 |};
  {| r_id := "IA32_FEATURE_CONTROL"; r_bits := 64; r_ser := 8; r_parser := 8; r_addr := 58 |};
  {| r_id := "IA32_MTRRCAP"; r_bits := 64; r_ser := 8; r_parser := 8; r_addr := 254 |};
  {| r_id := "IA32_PLATFORM_ID"; r_bits := 64; r_ser := 8; r_parser := 8; r_addr := 23 |};
  {| r_id := "IA32_SMRR_PHYSBASE"; r_bits := 64; r_ser := 8; r_parser := 8; r_addr := 498 |};
  {| r_id := "IA32_SMRR_PHYSMASK"; r_bits := 64; r_ser := 8; r_parser := 8; r_addr := 499 |};
  {| r_id := "MP0_C2P_MSG_37"; r_bits := 32; r_ser := 4; r_parser := 4; r_addr := 0 |};
  {| r_id := "MP0_C2P_MSG_38"; r_bits := 32; r_ser := 4; r_parser := 4; r_addr := 0 |};
  {| r_id := "TXT.SPAD"; r_bits := 64; r_ser := 8; r_parser := 8; r_addr := 4275241120 |};
  {| r_id := "TXT.DPR"; r_bits := 32; r_ser := 4; r_parser := 4; r_addr := 4275241776 |};
  {| r_id := "TXT.DIDVID"; r_bits := 64; r_ser := 8; r_parser := 8; r_addr := 4275241232 |};
  {| r_id := "TXT.ERRORCODE"; r_bits := 32; r_ser := 4; r_parser := 4; r_addr := 4275241008 |};
  {| r_id := "TXT.ESTS"; r_bits := 8; r_ser := 1; r_parser := 1; r_addr := 4275240968 |};
  {| r_id := "TXT.HEAP.BASE"; r_bits := 32; r_ser := 4; r_parser := 4; r_addr := 4275241728 |};
  {| r_id := "TXT.HEAP.SIZE"; r_bits := 32; r_ser := 4; r_parser := 4; r_addr := 4275241736 |};
  {| r_id := "TXT.MLE.JOIN"; r_bits := 32; r_ser := 4; r_parser := 4; r_addr := 4275241616 |};
  {| r_id := "TXT.SINIT.BASE"; r_bits := 32; r_ser := 4; r_parser := 4; r_addr := 4275241584 |};
  {| r_id := "TXT.SINIT.SIZE"; r_bits := 32; r_ser := 4; r_parser := 4; r_addr := 4275241592 |};
  {| r_id := "TXT.STS"; r_bits := 64; r_ser := 8; r_parser := 8; r_addr := 4275240960 |};
  {| r_id := "TXT.VER.EMIF"; r_bits := 32; r_ser := 4; r_parser := 4; r_addr := 4275241472 |};
  {| r_id := "TXT.VER.FSBIF"; r_bits := 32; r_ser := 4; r_parser := 4; r_addr := 4275241216 |};
  {| r_id := "TXT.PUBLIC.KEY"; r_bits := 256; r_ser := 32; r_parser := 32; r_addr := 4275241984 |}
].
Definition key_id : string := "TXT.PUBLIC.KEY".
Close Scope string_scope.

Fixpoint lookup (id : string) (l : list rinfo) : option rinfo :=
  match l with
  | [] => None
  | r :: t => if String.eqb id (r_id r) then Some r else lookup id t
  end.

(** a register value: identifier and raw value (the key as a little-endian number) *)
Definition reg := (string * N)%type.

(** * little-endian bytes *)
Fixpoint le_bytes (n : nat) (x : N) : list N :=
  match n with
  | O => []
  | S n' => (x mod 256) :: le_bytes n' (x / 256)
  end.
Fixpoint le_value (b : list N) : N :=
  match b with
  | [] => 0
  | x :: t => x + 256 * le_value t
  end.

Definition be_value (b : list N) : N := le_value (rev b).

(** [ValueBytes]: Raw() rendered little-endian (the key: its 32 bytes). *)
Definition value_bytes (r : reg) : res (list N) :=
  match lookup (fst r) registry with
  | None => RErr
  | Some i => ROk (le_bytes (r_ser i) (snd r))
  end.

(** [ValueFromBytes]: a value of exactly the register's width (the key: 32 bytes; the others:
    the bytes their parser table reads) is the little-endian integer, converted to the
    register's Go type; a short input is an error (binary.Read), and so is an input with
    bytes left over (repaired in 4a8d65e). *)
Definition value_from_bytes (id : string) (b : list N) : res reg :=
  match lookup id registry with
  | None => RErr
  | Some i =>
      if String.eqb id key_id then
        if Nat.eqb (List.length b) 32 then ROk (id, le_value b) else RErr
      else
        if Nat.eqb (List.length b) (r_parser i) then ROk (id, le_value b mod 2 ^ r_bits i)
        else RErr
  end.

(** the code before 4a8d65e (former finding C16-from-bytes-trailing-bytes-accepted): the
    fixed-width registers read their integer from the front and ignored what followed.
    Kept for the witness theorems only; no case is checked against it. *)
Definition value_from_bytes_legacy (id : string) (b : list N) : res reg :=
  match lookup id registry with
  | None => RErr
  | Some i =>
      if String.eqb id key_id then
        if Nat.eqb (List.length b) 32 then ROk (id, le_value b) else RErr
      else
        if Nat.ltb (List.length b) (r_parser i) then RErr
        else ROk (id, le_value (firstn (r_parser i) b) mod 2 ^ r_bits i)
  end.

(** values handed to [registers.New] *)
Inductive value :=
| VNil
| VUint (bits : N) (n : N)     (* any Go integer type *)
| VBytes (b : list N)          (* []byte *)
| VReg (r : string * N)        (* a registers.Register (what ValueFromBytes hands to New) *)
| VOther.                      (* string, bool, other slices, ... *)

Definition new (id : string) (v : value) : res reg :=
  match lookup id registry with
  | None => RErr                 (* unknown register ID *)
  | Some i =>
      match v with
      | VNil => ROk (id, 0)
      | VUint _ n => if String.eqb id key_id then RErr else ROk (id, n mod 2 ^ r_bits i)
      | VBytes b => if String.eqb id key_id
                    then (if Nat.eqb (List.length b) 32 then ROk (id, le_value b) else RErr)
                    else RErr
      | VReg r =>
          (* reflect ConvertibleTo: integer kinds convert among each other (truncating),
             the 32-byte array only to itself *)
          match lookup (fst r) registry with
          | None => RErr
          | Some _ =>
              if String.eqb id key_id
              then (if String.eqb (fst r) key_id then ROk (id, snd r) else RErr)
              else (if String.eqb (fst r) key_id then RErr else ROk (id, snd r mod 2 ^ r_bits i))
          end
      | VOther => RErr
      end
  end.

(** [Value()] of a register, as [New] receives it back *)
Definition own_value (r : reg) : value :=
  match lookup (fst r) registry with
  | None => VOther
  | Some i => if String.eqb (fst r) key_id then VBytes (le_bytes 32 (snd r))
              else VUint (8 * N.of_nat (r_ser i)) (snd r)
  end.

Definition bind {A B} (x : res A) (f : A -> res B) : res B :=
  match x with ROk a => f a | RErr => RErr | RPanic => RPanic end.

Fixpoint mapM {A B} (f : A -> res B) (l : list A) : res (list B) :=
  match l with
  | [] => ROk []
  | a :: t => bind (f a) (fun b => bind (mapM f t) (fun t' => ROk (b :: t')))
  end.

(** legacy JSON: [{id, base64(ValueBytes)}], order preserved *)
Definition json_roundtrip (regs : list reg) : res (list reg) :=
  mapM (fun r => bind (value_bytes r) (fun b =>
                 bind (value_from_bytes (fst r) b) (fun r' =>
                 new (fst r') (own_value r')))) regs.

(** * hexadecimal: strconv.FormatUint(x, 16) / ParseUint(h, 16, bits) *)
Definition hex_digit (d : N) : ascii :=
  ascii_of_N (if d <? 10 then 48 + d else 87 + d).
Definition digit_val (c : ascii) : option N :=
  let n := N_of_ascii c in
  if (48 <=? n) && (n <=? 57) then Some (n - 48)
  else if (97 <=? n) && (n <=? 102) then Some (n - 87)
  else if (65 <=? n) && (n <=? 70) then Some (n - 55)
  else None.

(** most significant digit first; [fuel] bounds the number of digits *)
Fixpoint to_hex_aux (fuel : nat) (x : N) (acc : string) : string :=
  match fuel with
  | O => acc
  | S f => let acc' := String (hex_digit (x mod 16)) acc in
           if x / 16 =? 0 then acc' else to_hex_aux f (x / 16) acc'
  end.
Definition to_hex (x : N) : string := to_hex_aux (S (N.to_nat (N.size x))) x EmptyString.

Fixpoint of_hex_aux (s : string) (acc : N) : option N :=
  match s with
  | EmptyString => Some acc
  | String c r => match digit_val c with
                  | Some d => of_hex_aux r (16 * acc + d)
                  | None => None
                  end
  end.
(** ParseUint: empty string and invalid digits are errors; so is a value that does not fit [bits] *)
Definition parse_hex (bits : N) (s : string) : option N :=
  match s with
  | EmptyString => None
  | _ => match of_hex_aux s 0 with
         | Some v => if v <? 2 ^ bits then Some v else None
         | None => None
         end
  end.

(** hex.EncodeToString / DecodeString for the key *)
Fixpoint bytes_to_hex (b : list N) : string :=
  match b with
  | [] => EmptyString
  | x :: t => String (hex_digit (x / 16)) (String (hex_digit (x mod 16)) (bytes_to_hex t))
  end.
Fixpoint hex_to_bytes (s : string) : option (list N) :=
  match s with
  | EmptyString => Some []
  | String a (String b r) =>
      match digit_val a, digit_val b, hex_to_bytes r with
      | Some x, Some y, Some t => Some ((16 * x + y) :: t)
      | _, _, _ => None
      end
  | _ => None
  end.

(** YAML value of a register ("0x" prefix left out) and the way back *)
Definition yaml_value (r : reg) : res string :=
  match lookup (fst r) registry with
  | None => RErr
  | Some i => if String.eqb (fst r) key_id then ROk (bytes_to_hex (le_bytes 32 (snd r)))
              else ROk (to_hex (snd r))
  end.
Definition yaml_unvalue (id : string) (h : string) : res reg :=
  match lookup id registry with
  | None => RErr
  | Some i =>
      if String.eqb id key_id then
        (* The YAML document carries the value as a plain (unquoted) scalar; yaml.v3
           resolves a plain 0x... scalar that fits 64 bits as an INTEGER, and
           registers.New rejects an integer for the byte-array register
           (known finding C16-yaml-small-public-key).  Faithful: *)
        match hex_to_bytes h with
        | Some b => if be_value b <? 2 ^ 64 then RErr else new id (VBytes b)
        | None => RErr
        end
      else
        match parse_hex (8 * N.of_nat (r_ser i)) h with
        | Some v => new id (VUint (8 * N.of_nat (r_ser i)) v)
        | None => RErr
        end
  end.

(** [Registers.Sort]: by address, then by ID (insertion sort; the keys of a
    duplicate-free collection are distinct, so every sort gives this list) *)
Definition addr_of (r : reg) : N :=
  match lookup (fst r) registry with Some i => r_addr i | None => 0 end.
Definition reg_leb (a b : reg) : bool :=
  if addr_of a =? addr_of b then String.leb (fst a) (fst b) else addr_of a <? addr_of b.
Fixpoint insert (r : reg) (l : list reg) : list reg :=
  match l with
  | [] => [r]
  | h :: t => if reg_leb r h then r :: l else h :: insert r t
  end.
Definition sort_regs (l : list reg) : list reg := fold_right insert [] l.

(** YAML: map ID -> "0x…"; the result is sorted. A later duplicate ID overwrites an earlier one. *)
Fixpoint dedup_last (l : list reg) : list reg :=
  match l with
  | [] => []
  | r :: t => if existsb (fun r' => String.eqb (fst r') (fst r)) t then dedup_last t else r :: dedup_last t
  end.
Definition yaml_roundtrip (regs : list reg) : res (list reg) :=
  bind (mapM (fun r => bind (yaml_value r) (fun h => yaml_unvalue (fst r) h)) (dedup_last regs))
       (fun l => ROk (sort_regs l)).

(** * Textual forms of one YAML value: marshal_value.go valueUnpack / valueUnpackString

    What the YAML decoder hands over for one mapping value: an integer (a plain scalar that
    yaml.v3 resolved as !!int: Go int or uint64), a string (quoted scalar, or a plain scalar
    that resolves to !!str), or something else (float, bool, sequence, ...). *)
Inductive yval := YInt (n : N) | YStr (s : string) | YOther.

(** encoding/base64 StdEncoding (padded, non-strict: unused trailing bits are ignored;
    line breaks inside the text are outside the modelled alphabet) *)
Definition b64_char (d : N) : ascii :=
  ascii_of_N (if d <? 26 then 65 + d else if d <? 52 then 71 + d else if d <? 62 then d - 4
              else if d =? 62 then 43 else 47).
Definition b64_val (c : ascii) : option N :=
  let n := N_of_ascii c in
  if (65 <=? n) && (n <=? 90) then Some (n - 65)
  else if (97 <=? n) && (n <=? 122) then Some (n - 71)
  else if (48 <=? n) && (n <=? 57) then Some (n + 4)
  else if n =? 43 then Some 62
  else if n =? 47 then Some 63
  else None.
Definition b64_pad : ascii := "="%char.

Fixpoint b64_enc (b : list N) : string :=
  match b with
  | [] => EmptyString
  | [x] => String (b64_char (x / 4)) (String (b64_char ((x mod 4) * 16))
           (String b64_pad (String b64_pad EmptyString)))
  | [x; y] => String (b64_char (x / 4)) (String (b64_char ((x mod 4) * 16 + y / 16))
              (String (b64_char ((y mod 16) * 4)) (String b64_pad EmptyString)))
  | x :: y :: z :: t =>
      String (b64_char (x / 4)) (String (b64_char ((x mod 4) * 16 + y / 16))
      (String (b64_char ((y mod 16) * 4 + z / 64)) (String (b64_char (z mod 64)) (b64_enc t))))
  end.

Fixpoint b64_dec (s : string) : option (list N) :=
  match s with
  | EmptyString => Some []
  | String a (String b (String c (String d r))) =>
      match b64_val a, b64_val b with
      | Some p, Some q =>
          match r with
          | EmptyString =>      (* the last quantum may be padded *)
              if Ascii.eqb c b64_pad then
                if Ascii.eqb d b64_pad then Some [p * 4 + q / 16] else None
              else match b64_val c with
                   | None => None
                   | Some u =>
                       if Ascii.eqb d b64_pad then Some [p * 4 + q / 16; (q mod 16) * 16 + u / 4]
                       else match b64_val d with
                            | None => None
                            | Some v => Some [p * 4 + q / 16; (q mod 16) * 16 + u / 4; (u mod 4) * 64 + v]
                            end
                   end
          | _ =>
              match b64_val c, b64_val d, b64_dec r with
              | Some u, Some v, Some t =>
                  Some ((p * 4 + q / 16) :: ((q mod 16) * 16 + u / 4) :: ((u mod 4) * 64 + v) :: t)
              | _, _, _ => None
              end
          end
      | _, _ => None
      end
  | _ => None
  end.

(** strings.HasPrefix(s, p) and s[len(p):] *)
Fixpoint drop_prefix (p s : string) : option string :=
  match p with
  | EmptyString => Some s
  | String a p' => match s with
                   | String b s' => if Ascii.eqb a b then drop_prefix p' s' else None
                   | EmptyString => None
                   end
  end.

(** [valueFromHex]: a sample of the register decides between ParseUint(h, 16, width of Value())
    and hex.DecodeString *)
Definition value_from_hex (id : string) (h : string) : res value :=
  match lookup id registry with
  | None => RErr
  | Some i =>
      if String.eqb id key_id then
        match hex_to_bytes h with Some b => ROk (VBytes b) | None => RErr end
      else
        match parse_hex (8 * N.of_nat (r_ser i)) h with
        | Some v => ROk (VUint (8 * N.of_nat (r_ser i)) v)
        | None => RErr
        end
  end.

(** [valueFromBase64] (obsolete form): std base64 of the ValueBytes rendering *)
Definition value_from_base64 (id : string) (t : string) : res value :=
  match b64_dec t with
  | Some b => bind (value_from_bytes id b) (fun r => ROk (VReg r))
  | None => RErr
  end.

Open Scope string_scope.
(** [valueUnpackString]: a case-SENSITIVE prefix switch; nothing else of the string is touched *)
Definition value_unpack_string (id : string) (s : string) : res value :=
  match drop_prefix "0x" s with
  | Some h => value_from_hex id h
  | None => match drop_prefix "base64:" s with
            | Some t => value_from_base64 id t
            | None => RErr
            end
  end.
Close Scope string_scope.

Definition value_unpack (id : string) (v : yval) : res value :=
  match v with
  | YInt n => ROk (VUint 64 n)
  | YStr s => value_unpack_string id s
  | YOther => RErr
  end.

(** one mapping entry of a YAML document: valueUnpack, then registers.New *)
Definition yaml_entry (id : string) (v : yval) : res reg := bind (value_unpack id v) (new id).

(** yaml.v3 scalar resolution when decoding into interface{}, for the scalars the harness
    writes ([None] = outside the modelled class, the harness sends no such case):
    a quoted scalar is the string itself; a plain scalar is
    - "0x"/"0X" + alphanumerics: an integer if the rest is a non-empty hexadecimal number
      below 2^64 (strconv.ParseInt/ParseUint base 0), otherwise the string;
    - decimal digits without a leading zero: an integer below 2^64, a float from there on;
    - "base64:" + non-empty text over the base64 alphabet and '=': the string;
    - nothing at all, ~, null / Null / NULL, true / false in their three spellings: no integer
      and no string ([YOther]). *)
Definition is_digit (c : ascii) : bool := let n := N_of_ascii c in (48 <=? n) && (n <=? 57).
Definition is_alnum (c : ascii) : bool :=
  let n := N_of_ascii c in
  ((48 <=? n) && (n <=? 57)) || ((65 <=? n) && (n <=? 90)) || ((97 <=? n) && (n <=? 122)).
Definition is_b64ish (c : ascii) : bool :=
  match b64_val c with Some _ => true | None => Ascii.eqb c b64_pad end.
Fixpoint all_chars (f : ascii -> bool) (s : string) : bool :=
  match s with EmptyString => true | String c r => f c && all_chars f r end.
Fixpoint of_dec_aux (s : string) (acc : N) : N :=
  match s with
  | EmptyString => acc
  | String c r => of_dec_aux r (10 * acc + (N_of_ascii c - 48))
  end.

(** the text after a "0x" / "0X" prefix *)
Definition hex_prefixed (s : string) : option string :=
  match s with
  | String c (String x r) =>
      if Ascii.eqb c "0"%char && (Ascii.eqb x "x"%char || Ascii.eqb x "X"%char) then Some r else None
  | _ => None
  end.
Definition is_empty (s : string) : bool := match s with EmptyString => true | _ => false end.

(** the spellings of null (an empty value, ~, null) and of the booleans: the decoder hands
    over nil / a bool, which valueUnpack refuses ("unknown value type") *)
Open Scope string_scope.
Definition null_words : list string := [""; "~"; "null"; "Null"; "NULL"].
Definition bool_words : list string := ["true"; "True"; "TRUE"; "false"; "False"; "FALSE"].
Close Scope string_scope.
Definition in_words (s : string) (l : list string) : bool := existsb (String.eqb s) l.

Definition yaml_plain (s : string) : option yval :=
  match hex_prefixed s with
  | Some r =>
      if all_chars is_alnum r then
        match of_hex_aux r 0 with
        | Some v => Some (if is_empty r then YStr s else if v <? 2 ^ 64 then YInt v else YStr s)
        | None => Some (YStr s)
        end
      else None
  | None =>
      if in_words s null_words || in_words s bool_words then Some YOther else
      match s with
      | EmptyString => None
      | String c r =>
          if is_digit c then
            if all_chars is_digit r && (negb (Ascii.eqb c "0"%char) || is_empty r) then
              let v := of_dec_aux s 0 in Some (if v <? 2 ^ 64 then YInt v else YOther)
            else None
          else
            match drop_prefix "base64:"%string s with
            | Some t => if negb (is_empty t) && all_chars is_b64ish t then Some (YStr s) else None
            | None => None
            end
      end
  end.

Definition yaml_scalar (quoted : bool) (s : string) : option yval :=
  if quoted then Some (YStr s) else yaml_plain s.

(** a YAML document: mapping ID -> scalar.  A repeated key is a decoding error; the result
    is sorted (Registers.Sort). *)
Fixpoint has_dup (l : list string) : bool :=
  match l with
  | [] => false
  | a :: t => existsb (String.eqb a) t || has_dup t
  end.
Definition yaml_doc (entries : list (string * yval)) : res (list reg) :=
  if has_dup (map fst entries) then RErr
  else bind (mapM (fun e => yaml_entry (fst e) (snd e)) entries) (fun l => ROk (sort_regs l)).

(** what MarshalYAML writes: the plain scalar "0x" + hexadecimal *)
Definition yaml_marshal (regs : list reg) : res (list (string * (bool * string))) :=
  mapM (fun r => bind (yaml_value r) (fun h => ROk (fst r, (false, String "0" (String "x" h)))))
       (dedup_last regs).

(** legacy JSON document: [{id, value bytes}] in the order given *)
Definition json_marshal (regs : list reg) : res (list (string * list N)) :=
  mapM (fun r => bind (value_bytes r) (fun b => ROk (fst r, b))) regs.
Definition json_doc (entries : list (string * list N)) : res (list reg) :=
  mapM (fun e => bind (value_from_bytes (fst e) (snd e)) (fun r => new (fst e) (VReg r))) entries.

(** * Unmarshalling into a destination that may already hold registers

    UnmarshalJSON / UnmarshalYAML assign the parsed collection to the destination: what it
    held before does not matter, and a failed parse leaves it untouched. *)
Inductive doc :=
| DJson (entries : list (string * list N))
| DYaml (entries : list (string * (bool * string))).

Fixpoint resolve_entries (e : list (string * (bool * string))) : option (list (string * yval)) :=
  match e with
  | [] => Some []
  | (id, (q, s)) :: t =>
      match yaml_scalar q s, resolve_entries t with
      | Some v, Some t' => Some ((id, v) :: t')
      | _, _ => None
      end
  end.

Definition parse_doc (d : doc) : option (res (list reg)) :=
  match d with
  | DJson e => Some (json_doc e)
  | DYaml e => match resolve_entries e with Some e' => Some (yaml_doc e') | None => None end
  end.

(** destination after the call, and whether the call succeeded *)
Definition assign (dst : list reg) (p : res (list reg)) : list reg * bool :=
  match p with ROk l => (l, true) | _ => (dst, false) end.

Definition unmarshal (dst : list reg) (d : doc) : option (list reg * bool) :=
  match parse_doc d with Some p => Some (assign dst p) | None => None end.

(** several documents unmarshalled one after another into the same variable: the state of
    the variable and the success flag after each call *)
Fixpoint unmarshal_seq (dst : list reg) (docs : list doc) : option (list (list reg * bool)) :=
  match docs with
  | [] => Some []
  | d :: t =>
      match unmarshal dst d with
      | Some (dst', ok) =>
          match unmarshal_seq dst' t with
          | Some rest => Some ((dst', ok) :: rest)
          | None => None
          end
      | None => None
      end
  end.
