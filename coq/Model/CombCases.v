(** Case language of the C08 correspondence check. The Go harness
    (harness/cmd/c08) writes [coq/gen/Cases_C08_*.v] with values of [case]
    holding the inputs it gave to the implementation AND what the
    implementation returned; [check] re-runs the model. *)
From CSS Require Import Lib.Base Lib.Cases Model.Comb Model.CombHeap Model.CombConc.

Inductive case : Type :=
(* full walk from the first combination: m, k, (digest, visited, exhausted) and amount *)
| CWalk (m : Z) (k : nat) (digest visited : Z) (exhausted : bool) (amount : Z)
(* one Next() from an arbitrary state *)
| CNext (m : Z) (s : list Z) (more : bool) (s' : list Z)
(* GetCombinationID of an arbitrary state *)
| CRank (m : Z) (s : list Z) (id : Z)
(* SetCombinationID(id) on a fresh iterator, then GetCombination / GetCombinationID *)
| CSeek (m : Z) (k : nat) (id : Z) (r : obs (list Z))
| CAmount (m : Z) (k : nat) (amount : Z)
| CFlipBools (s : list Z) (v : list bool) (r : obs (list bool))
| CFlipBytes (s : list Z) (v : list Z) (r : obs (list Z))
(* a sequence of calls on several iterators (Model/CombHeap.v), all starting from nothing:
   what every call returned, and - read AFTER the last call - every combination that was handed
   out on the way and the current combination of every iterator;
   [hints]: the position of the iterator read right after each SetCombinationID, in order
   (evaluation hints only: [run_h ops hints = run ops] for every [hints], Proofs/CombConc.v) *)
| CProg (ops : list op) (hints : list (list Z)) (r : obs (list ev * list (list Z) * list (list Z)))
(* several goroutines at the same time, each with an iterator of its own (k, m) on which it
   makes the calls [ops]; per goroutine: hints as above, and what it observed - the final
   position, what every call returned, and the combinations it was handed (read after all
   goroutines have finished) *)
| CConc (ths : list (nat * Z * list lop * list (list Z) * obs (list Z * list ev * list (list Z)))).

Definition ev_eqb (a b : ev) : bool :=
  match a, b with
  | ENone, ENone => true
  | EBool x, EBool y => Bool.eqb x y
  | EZ x, EZ y => x =? y
  | _, _ => false
  end.

Definition prog_obs (ops : list op) : outcome (list ev * list (list Z) * list (list Z)) :=
  bind (run ops hinit) (fun '(st, evs) => Ok (evs, results st, currents st)).

Definition prog_obs_h (ops : list op) (hints : list (list Z)) : outcome (list ev * list (list Z) * list (list Z)) :=
  bind (run_h ops hints hinit) (fun '(st, evs) => Ok (evs, results st, currents st)).

Definition obs_hint (r : obs (list Z)) : list Z := match r with OOk s => s | _ => [] end.

Definition lobs_eqb (a b : list Z * list ev * list (list Z)) : bool :=
  let '(s1, e1, g1) := a in
  let '(s2, e2, g2) := b in
  zlist_eqb s1 s2 && list_eqb ev_eqb e1 e2 && list_eqb zlist_eqb g1 g2.

(** every goroutine observed what its own calls yield on an iterator nobody else touches *)
Definition thread_ok (t : nat * Z * list lop * list (list Z) * obs (list Z * list ev * list (list Z))) : bool :=
  let '(k, m, ops, hints, r) := t in
  obs_match lobs_eqb r (lrun_h m ops hints (first_comb k)).

Definition prog_eqb (a b : list ev * list (list Z) * list (list Z)) : bool :=
  let '(e1, r1, c1) := a in
  let '(e2, r2, c2) := b in
  list_eqb ev_eqb e1 e2 && list_eqb zlist_eqb r1 r2 && list_eqb zlist_eqb c1 c2.

(* fuel: one more than the number of combinations (capped); never a nat literal *)
Definition walk_fuel (m : Z) (k : nat) : nat := Z.to_nat (Z.min (amount64 m k + 1) 4000000).

Definition check (c : case) : bool :=
  match c with
  | CWalk m k dg vis ex am =>
      let '(h, n, e, idsok) := walk (walk_fuel m k) m (first_comb k) 0 0 true in
      (h =? dg) && (n =? vis) && Bool.eqb e ex && (amount64 m k =? am)
  | CNext m s more s' =>
      let '(b, r) := next m s in Bool.eqb b more && zlist_eqb r s'
  | CRank m s id => rank64 m s =? id
  | CSeek m k id r => obs_match zlist_eqb r (seek_h m k id (obs_hint r))
  | CAmount m k am => amount64 m k =? am
  | CFlipBools s v r => obs_match (list_eqb Bool.eqb) r (flip_bools s v)
  | CFlipBytes s v r => obs_match zlist_eqb r (flip_bytes s v)
  | CProg ops hints r => obs_match prog_eqb r (prog_obs_h ops hints)
  | CConc ths => forallb thread_ok ths
  end.

Definition mismatches := mismatches_by check.
