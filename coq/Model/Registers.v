(** Hand-written model of the parts of pkg/registers that are not plain
    shift/mask accessors: [CalculateRegisterFields] (field.go) and the
    little-endian register readers ([Read*] in txt_*.go, [ReadTXTRegisters]).
    Accessors themselves are not modelled by hand: tools/go2coq regenerates
    them from the source on every run (coq/gen/FromSource_registers.v). *)
From Coq Require Import NArith List String Bool.
From CSS Require Import Lib.SymBits Lib.RegTypes Lib.RegOblig.
Import ListNotations.
Open Scope N_scope.

(** One decoded field: name, bit offset, bit size, value. *)
Definition field := (string * N * N * N)%type.

(** [CalculateRegisterFields(registerValue uint64, registerSize uint8, fields)]:
    uint8 arithmetic is written out ([mod 256]); the mask [(1 << size) - 1] is
    computed in uint64 (so size 64 gives all ones); the shift amount is the
    running total of the sizes, not the declared offset.  The "not sorted"
    panic is not modelled: [table_wf] requires strictly increasing offsets. *)
Fixpoint calc_fields_aux (raw size total : N) (l : list (string * N)) : list field :=
  match l with
  | [] => []
  | (n, o) :: t =>
      let bsz := match t with
                 | [] => (size + 256 - o) mod 256
                 | (_, o') :: _ => (o' + 256 - o) mod 256
                 end in
      let mask := (N.shiftl 1 bsz mod 2^64 + 2^64 - 1) mod 2^64 in
      let v := N.land (N.shiftr raw total) mask in
      (n, o, bsz, v) :: calc_fields_aux raw size ((total + bsz) mod 256) t
  end.
Definition calc_fields (raw size : N) (l : list (string * N)) : list field :=
  calc_fields_aux raw size 0 l.

(** little-endian value of [n] bytes at [off] in [img]; [None] when the image is too short
    (the Go readers return an error or, for [data[off:]] with off > len, panic). *)
Fixpoint le_value (bytes : list N) : N :=
  match bytes with
  | [] => 0
  | b :: t => b + 256 * le_value t
  end.
Definition read_le (img : list N) (off n : nat) : option N :=
  if Nat.leb (off + n) (List.length img) then Some (le_value (firstn n (skipn off img))) else None.
