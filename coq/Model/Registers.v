(** Hand-written model of the parts of pkg/registers that are not plain
    shift/mask accessors: [CalculateRegisterFields] (field.go) and the
    little-endian register readers ([Read*] in txt_*.go, [ReadTXTRegisters]).
    Accessors themselves are not modelled by hand: tools/go2coq regenerates
    them from the source on every run (coq/gen/FromSource_registers.v). *)
From Coq Require Import NArith List String Bool.
From CSS Require Import Lib.SymBits Lib.RegTypes Lib.RegOblig.
Import ListNotations.
Open Scope N_scope.

(** One decoded field: name, bit offset, bit size, value. *)
Definition field := (string * N * N * N)%type.

(** [CalculateRegisterFields(registerValue uint64, registerSize uint8, fields)]:
    uint8 arithmetic is written out ([mod 256]); the mask [(1 << size) - 1] is
    computed in uint64 (so size 64 gives all ones); the shift amount is the
    running total of the sizes, not the declared offset.  The "not sorted"
    panic is not modelled: [table_wf] requires strictly increasing offsets. *)
Fixpoint calc_fields_aux (raw size total : N) (l : list (string * N)) : list field :=
  match l with
  | [] => []
  | (n, o) :: t =>
      let bsz := match t with
                 | [] => (size + 256 - o) mod 256
                 | (_, o') :: _ => (o' + 256 - o) mod 256
                 end in
      let mask := (N.shiftl 1 bsz mod 2^64 + 2^64 - 1) mod 2^64 in
      let v := N.land (N.shiftr raw total) mask in
      (n, o, bsz, v) :: calc_fields_aux raw size ((total + bsz) mod 256) t
  end.
Definition calc_fields (raw size : N) (l : list (string * N)) : list field :=
  calc_fields_aux raw size 0 l.

(** little-endian value of [n] bytes at [off] in [img]; [None] when the image is too short
    (the Go readers return an error or, for [data[off:]] with off > len, panic). *)
Fixpoint le_value (bytes : list N) : N :=
  match bytes with
  | [] => 0
  | b :: t => b + 256 * le_value t
  end.
Definition read_le (img : list N) (off n : nat) : option N :=
  if Nat.leb (off + n) (List.length img) then Some (le_value (firstn n (skipn off img))) else None.

(** * [ReadTXTRegisters] (txt.go)

    TXT configuration space layout: register ID, offset, size in bytes (constants
    *RegisterOffset in pkg/registers/txt_*.go and the Go type each reader decodes), in the order
    of the table [supportedTXTRegistersIDs] — which is ordered by NAME of the Go identifier, not
    by offset: TXT.PUBLIC.KEY (the last register of the space) is the fifth entry. *)
Open Scope string_scope.
Definition txt_layout : list (string * nat * nat) := [
  ("ACM_POLICY_STATUS", 888, 8); ("ACM_STATUS", 808, 4); ("TXT.DPR", 816, 4); ("TXT.ERRORCODE", 48, 4);
  ("TXT.PUBLIC.KEY", 1024, 32); ("TXT.STS", 0, 8); ("TXT.ESTS", 8, 1); ("TXT.SPAD", 160, 8);
  ("TXT.VER.FSBIF", 256, 4); ("TXT.VER.EMIF", 512, 4); ("TXT.DIDVID", 272, 8); ("TXT.SINIT.BASE", 624, 4);
  ("TXT.SINIT.SIZE", 632, 4); ("TXT.MLE.JOIN", 656, 4); ("TXT.HEAP.BASE", 768, 4); ("TXT.HEAP.SIZE", 776, 4)
]%nat.
Close Scope string_scope.

(** Why one reader fails: every reader is [binary.Read] of [n] bytes from a [bytes.Reader]
    positioned at [off] ([data.from(off)], [data[0:]] for TXT.STS, [Seek] for
    ACM_POLICY_STATUS): no byte left gives [io.EOF], fewer than [n] bytes
    [io.ErrUnexpectedEOF].  No reader panics, whatever the image length. *)
Inductive read_err := ErrEOF | ErrUnexpectedEOF.
Definition read_err_of (img : list N) (off : nat) : read_err :=
  if Nat.leb (List.length img) off then ErrEOF else ErrUnexpectedEOF.

(** [ReadTXTRegisters]: every entry of the table is tried, in table order, whatever happened to
    the entries before it; a register that was read is appended to the result, a failure to the
    [MultiError] (which is returned iff it is not empty) — and the loop goes on.  First
    component: the collection (ID, raw value); second: the failures (ID, reason). *)
Fixpoint read_regs (layout : list (string * nat * nat)) (img : list N)
  : list (string * N) * list (string * read_err) :=
  match layout with
  | [] => ([], [])
  | (id, off, n) :: t =>
      let r := read_regs t img in
      match read_le img off n with
      | Some v => ((id, v) :: fst r, snd r)
      | None => (fst r, (id, read_err_of img off) :: snd r)
      end
  end.
Definition read_txt (img : list N) := read_regs txt_layout img.
