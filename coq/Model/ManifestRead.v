(** C18 — what the constructors NewKM / NewBPM / NewBPMAndKM hand to fiano's codec.

    The constructors of pkg/provisioning/bootguard detect the generation
    (DetectBGV rewinds the reader) and pass THEIR READER ON AS IT IS to
    Manifest.ReadFrom: the codec sees the whole file, whatever its length (a
    signed file ranges from half a KiB to more than 64 KiB: 255 IBB segments,
    platform data behind a 16-bit size, hundreds of KM hash entries) and whatever
    bytes it ends with (a signed file ends with the signature value: every byte
    value occurs, 0xFF and 0x00 included).

    [verify_file_via pre] is the glue of Model/Manifest.v with a constructor that
    hands [pre file] to the codec; the code is the instance [pre = fun f => f]
    ([verify_file]).  The instances a cautious constructor might pick -- a length
    limit ([firstn n], io.LimitReader) or cutting off filler bytes at the end
    ([trim_trailing x]) -- are SHORTENINGS: on some files they hand over a proper
    prefix.  The correspondence cases tabulate [parse] with fiano's reader applied
    to the whole file by the harness itself (not through the constructors), keyed
    by the bytes it was given ([tbl_env_at] in ManifestCases.v). *)
From CSS Require Import Lib.Base Model.Manifest.

Section Read.
  Variable E : env.

  Definition verify_file_via (pre : bytes -> bytes) (d : doc) (file : bytes) : outcome unit :=
    match detect file with
    | None => Err 1
    | Some g =>
        match parse E g d (pre file) with
        | None => Err 2
        | Some m => if verify_manifest E g d m then Ok tt else Err 3
        end
    end.
End Read.

(** cut off every trailing byte equal to [x] *)
Fixpoint trim_trailing (x : Z) (f : bytes) : bytes :=
  match f with
  | [] => []
  | b :: r =>
      match trim_trailing x r with
      | [] => if b =? x then [] else [b]
      | r' => b :: r'
      end
  end.
