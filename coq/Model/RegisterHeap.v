(** Slice-level model of [Register.Fields()]: WHICH MEMORY the returned
    [Field.Value] byte slices live in (pkg/registers/field.go, txt_public_key.go).

    The value-level model ([calc_fields], Model/Registers.v) says what number each
    field holds.  A [Field.Value] however is a Go [[]byte]: a window into a byte
    array that the caller may write to.  Whether two results (of one call, of two
    calls, of calls for different registers) share such an array, or share it with
    package-level state, is invisible to the value-level model and to every
    single call; it shows only in a SEQUENCE: decode, write into a returned value,
    decode again.  This file models exactly that.

    - [heap]: one entry per allocation, address = position ([make] appends);
    - [number_to_field_value]: [result := make([]byte, 8); PutUint64(result, n)];
    - [alloc_values]: the calls of [NumberToFieldValue] made by
      [CalculateRegisterFields], one per field, in field order;
    - [op]: what a consumer can do: call [Fields()] of a register type on a raw
      value, call [TXTPublicKey.Fields()], overwrite the bytes of the [g]-th value
      that was ever handed out;
    - [step]/[run]: heap semantics; an [OpFields] reports the new fields as they
      read immediately after the call, [final] how every value handed out reads at
      the end;
    - [vstep]/[vrun]: the same session where every handed-out value is an
      independent value (no memory at all): the reference the heap semantics is
      proved equal to in Proofs/RegisterHeap.v. *)
From Coq Require Import NArith List String Bool.
From CSS Require Import Lib.SymBits Lib.RegTypes Lib.RegOblig Model.Registers.
Import ListNotations.
Open Scope N_scope.

Definition heap := list (list N).

(** name, bit offset, bit size, bytes of [Value] as read, address of [Value] *)
Definition ofield := (string * N * N * list N * nat)%type.

(** [n] bytes, little endian ([binary.LittleEndian.PutUint64] for n = 8: the argument is a
    uint64, bytes above the 8th do not exist) *)
Fixpoint le_bytes (n : nat) (v : N) : list N :=
  match n with
  | O => []
  | S k => v mod 256 :: le_bytes k (v / 256)
  end.

(** [NumberToFieldValue]: a fresh 8-byte array on every call *)
Definition number_to_field_value (v : N) (h : heap) : nat * heap :=
  (List.length h, h ++ [le_bytes 8 v]).

(** the value construction of [CalculateRegisterFields]: name, offset, size, address;
    [ctor] is the function that turns a number into a [[]byte] *)
Fixpoint alloc_values_with (ctor : N -> heap -> nat * heap) (fs : list field) (h : heap)
  : list (string * N * N * nat) * heap :=
  match fs with
  | [] => ([], h)
  | (n, o, s, v) :: t =>
      let '(a, h1) := ctor v h in
      let '(r, h2) := alloc_values_with ctor t h1 in
      ((n, o, s, a) :: r, h2)
  end.
Definition alloc_values := alloc_values_with number_to_field_value.

Definition read_at (h : heap) (f : string * N * N * nat) : ofield :=
  let '(n, o, s, a) := f in (n, o, s, nth a h [], a).

(** [TXTPublicKey.Fields()]: one field; [BitSize()] is [uint8(32*8)] = 0 (a uint8 cannot hold
    256); [Value] is a slice of the method's own copy of the 32-byte array: fresh per call. *)
Definition key_field_name : string :=
  "Hash of the public key used for verification of AC modules".

(** Writing [new] over an array keeps the array's length. *)
Definition overwrite (new old : list N) : list N :=
  firstn (List.length old) new ++ skipn (List.length new) old.

Fixpoint set_nth {A} (i : nat) (x : A) (l : list A) : list A :=
  match l, i with
  | [], _ => []
  | _ :: t, O => x :: t
  | a :: t, S j => a :: set_nth j x t
  end.

Inductive op :=
| OpFields (reg : string) (raw : N)     (* reg(raw).Fields() *)
| OpKeyFields (key : list N)            (* TXTPublicKey(key).Fields() *)
| OpWrite (g : nat) (bytes : list N).   (* copy(value_g[:cap], bytes), value_g = g-th value handed out *)

(** heap + addresses of all values handed out so far, in order *)
Record state := { s_heap : heap; s_vals : list nat }.
Definition empty_state : state := {| s_heap := []; s_vals := [] |}.

(** [None]: the operation cannot be run (unknown register type / value index) *)
Definition step (tabs : list table) (s : state) (o : op) : option (list ofield * state) :=
  match o with
  | OpFields r raw =>
      match find_table r tabs with
      | None => None
      | Some t =>
          let '(fs, h) := alloc_values (calc_fields raw (t_bits t) (t_fields t)) (s_heap s) in
          Some (map (read_at h) fs,
                {| s_heap := h; s_vals := s_vals s ++ map (fun f => snd f) fs |})
      end
  | OpKeyFields key =>
      let a := List.length (s_heap s) in
      let h := s_heap s ++ [key] in
      Some ([(key_field_name, 0, 256 mod 256, nth a h [], a)],
            {| s_heap := h; s_vals := s_vals s ++ [a] |})
  | OpWrite g bytes =>
      match nth_error (s_vals s) g with
      | None => None
      | Some a =>
          Some ([], {| s_heap := set_nth a (overwrite bytes (nth a (s_heap s) [])) (s_heap s);
                       s_vals := s_vals s |})
      end
  end.

Fixpoint run (tabs : list table) (s : state) (ops : list op) : option (list (list ofield) * state) :=
  match ops with
  | [] => Some ([], s)
  | o :: t =>
      match step tabs s o with
      | None => None
      | Some (ob, s1) =>
          match run tabs s1 t with
          | None => None
          | Some (obs, s2) => Some (ob :: obs, s2)
          end
      end
  end.

(** how every value handed out reads now *)
Definition final (s : state) : list (list N) := map (fun a => nth a (s_heap s) []) (s_vals s).

(** * The reference: the same session over independent values *)

(** [vs]: current bytes of every value handed out so far; addresses are only counted *)
Fixpoint number_from (base : nat) (fs : list field) : list ofield :=
  match fs with
  | [] => []
  | (n, o, s, v) :: t => (n, o, s, le_bytes 8 v, base) :: number_from (S base) t
  end.

Definition vstep (tabs : list table) (vs : list (list N)) (base : nat) (o : op)
  : option (list ofield * list (list N) * nat) :=
  match o with
  | OpFields r raw =>
      match find_table r tabs with
      | None => None
      | Some t =>
          let fs := calc_fields raw (t_bits t) (t_fields t) in
          Some (number_from base fs, vs ++ map (fun f => le_bytes 8 (snd f)) fs,
                (base + List.length fs)%nat)
      end
  | OpKeyFields key =>
      Some ([(key_field_name, 0, 0, key, base)], vs ++ [key], S base)
  | OpWrite g bytes =>
      match nth_error vs g with
      | None => None
      | Some old => Some ([], set_nth g (overwrite bytes old) vs, base)
      end
  end.

Fixpoint vrun (tabs : list table) (vs : list (list N)) (base : nat) (ops : list op)
  : option (list (list ofield) * list (list N)) :=
  match ops with
  | [] => Some ([], vs)
  | o :: t =>
      match vstep tabs vs base o with
      | None => None
      | Some (ob, vs1, base1) =>
          match vrun tabs vs1 base1 t with
          | None => None
          | Some (obs, vs2) => Some (ob :: obs, vs2)
          end
      end
  end.

(** * What a constructor that hands out shared memory would do (NOT the code: used only to show
      that the freshness theorems are not vacuous, Proofs/RegisterHeap.v) *)
Definition shared_small_value (v : N) (h : heap) : nat * heap :=
  if v <? 2 then (N.to_nat v, h) else (List.length h, h ++ [le_bytes 8 v]).
