(** Case language of the C15 correspondence check.  The Go harness
    (harness/cmd/c15) runs the real decoder on an input (in a child process with
    an address-space limit), records the outcome class, a summary of the decoded
    value and the number of bytes allocated during the call, and writes one
    [CDec] per call; [check] re-runs the model of that decoder. *)
From CSS Require Import Lib.Base Lib.Cases Model.Decoders Model.DecodersExt.
From CSS Require Model.EventLog.
From Coq Require Import Uint63.

(** byte strings are written by the harness packed seven bytes per primitive
    63-bit integer, little endian ([pk 9 [0x07060504030201; 0x0908]] =
    [1;2;3;4;5;6;7;8;9]): the kernel checks one node per seven bytes instead of
    a numeral per byte *)
(** (the bytes are taken off the word with primitive shifts and masks; only the
    resulting 8-bit values are converted to [Z]) *)
Fixpoint byteZ (n : nat) (i : int) : Z :=
  match n with
  | O => 0
  | S n' => if is_even i then Z.double (byteZ n' (i >> 1)%uint63) else Z.succ_double (byteZ n' (i >> 1)%uint63)
  end.
Fixpoint unpk (k : nat) (w : int) : list Z :=
  match k with O => [] | S k' => byteZ 8 (w land 255)%uint63 :: unpk k' (w >> 8)%uint63 end.
Fixpoint pk (n : Z) (ws : list int) : list Z :=
  match ws with
  | [] => []
  | w :: t => if n <=? 7 then unpk (Z.to_nat n) w else unpk 7 w ++ pk (n - 7) t
  end.
Example pk_example : pk 9 [1976943448883713%uint63; 2312%uint63] = [1; 2; 3; 4; 5; 6; 7; 8; 9].
Proof. vm_compute. reflexivity. Qed.

(** long summaries are written as [unz (pk n [...])]: per value one tag byte
    (number of magnitude bytes, +128 when the value is negative) followed by
    the magnitude, little endian *)
Fixpoint unz_go (fuel : nat) (l : list Z) : list Z :=
  match fuel with
  | O => []
  | S f =>
      match l with
      | [] => []
      | t :: r =>
          match takeZ r (t mod 16) with
          | Some (a, r') => (if 128 <=? t then - le_val a else le_val a) :: unz_go f r'
          | None => [-999]   (* malformed: never written by the harness, never equal to a model summary *)
          end
      end
  end.
Definition unz (l : list Z) : list Z := unz_go (length l) l.

(** what the implementation did *)
Inductive dobs : Type :=
| DOk (summary : list Z)   (* returned a value (err == nil) *)
| DErr                     (* returned an error *)
| DPanic                   (* panicked (recovered in the child) *)
| DCrash                   (* the child died with "fatal error: out of memory" *)
| DTimeout.                (* no answer within 2 s *)

(** decoder numbers (the harness uses the same table) *)
Definition D_PARSE_POLICY   : Z := 1.
Definition D_POLICY_DATA    : Z := 2.
Definition D_LOOKUP_ACMSIZE : Z := 3.
Definition D_ACM_INFO       : Z := 4.
Definition D_TXT_REGS       : Z := 5.
Definition D_BIOS_DATA      : Z := 6.
Definition D_ACM_STATUS     : Z := 7.
Definition D_ACMPOL_RAW     : Z := 8.
Definition D_BOOTSTS_RAW    : Z := 9.
Definition D_LOCALITY       : Z := 10.
Definition D_EVENT_DATA     : Z := 11.
Definition D_READ_TXT_REGS  : Z := 12.
Definition D_READ_REG       : Z := 13.
Definition D_VALUE_FROM     : Z := 14.
Definition D_SYSFS_PCRS     : Z := 15.
Definition D_LOCAL_CAPS     : Z := 16.
Definition D_BYTES_RANGE    : Z := 17.
Definition D_DECRYPT_FRAME  : Z := 18.
Definition D_JSON_REGS      : Z := 19.
Definition D_PARSE_ACM      : Z := 21.  (* tools.ParseACM: aux = [Header.GetModuleSubType()], i1 = user area, i2 = serialised module *)
Definition D_LOCAL_FILES    : Z := 20.  (* tpmdetection.local with a missing device / capability file: aux = [bit 0: device missing, bit 1: caps missing] *)

Definition of_outcome {A} (o : outcome A) (f : A -> list Z) : rd (list Z) := fun s =>
  match o with
  | Ok a => ROk (f a) s
  | Err c => RErr c s
  | Panic => RPanic
  | OutOfFuel => RFuel
  end.

Definition parsed_summary (p : EventLog.parsed) : list Z :=
  [lenZ (flat_map (fun r => [fst r; snd r]) (EventLog.pr_ranges p))]
  ++ flat_map (fun r => [fst r; snd r]) (EventLog.pr_ranges p)
  ++ [match EventLog.pr_locality p with Some l => l | None => -1 end]
  ++ match EventLog.pr_descr p with Some d => 1 :: lenZ d :: d | None => [0] end
  ++ [Z.of_nat (length (EventLog.pr_guids p))] ++ concat (EventLog.pr_guids p).

Definition aux_at (aux : list Z) (k : nat) : Z := nth k aux 0.
Definition nz (z : Z) : bool := negb (z =? 0).

(** the model of decoder [d] on the inputs of a case: [faithful] = the code as it is, with the repairs *)
Definition model (d : Z) (aux i1 i2 : list Z) : res (list Z) :=
  if d =? D_PARSE_POLICY then run (parse_policy (nz (aux_at aux 0)) i1) i1
  else if d =? D_POLICY_DATA then run (policy_data faithful) i1
  else if d =? D_LOOKUP_ACMSIZE then run (lookup_acm_size faithful i1) i1
  else if d =? D_ACM_INFO then run (acm_info faithful i2) i1
  else if d =? D_TXT_REGS then run (parse_txt_regs faithful i1) i1
  else if d =? D_BIOS_DATA then run parse_bios_data i1
  else if d =? D_ACM_STATUS then run (read_acm_status faithful i1) i1
  else if d =? D_ACMPOL_RAW then run (read_raw64_at i1 888) i1
  else if d =? D_BOOTSTS_RAW then run (read_raw64_at i1 160) i1
  else if d =? D_LOCALITY then run (of_outcome (EventLog.parse_locality i1) (fun b => [b])) i1
  else if d =? D_EVENT_DATA then
    run (of_outcome (EventLog.parse_event_data
                       (EventLog.mkEv (aux_at aux 0) (aux_at aux 1) i1 None) (aux_at aux 2))
                    parsed_summary) i1
  else if d =? D_READ_TXT_REGS then run (read_txt_registers faithful i1) i1
  else if d =? D_READ_REG then run (read_reg_k faithful i1 (aux_at aux 0)) i1
  else if d =? D_VALUE_FROM then run (value_from_bytes i2 i1) i1
  else if d =? D_SYSFS_PCRS then run (parse_sysfs_pcrs i1) i1
  else if d =? D_LOCAL_CAPS then run (local_caps i1) i1
  else if d =? D_BYTES_RANGE then run (bytes_range (aux_at aux 0) (aux_at aux 1) (aux_at aux 2)) i1
  else if d =? D_DECRYPT_FRAME then run (decrypt_frame faithful (match i2 with [] => false | _ => true end) i1) i1
  else if d =? D_JSON_REGS then run (parse_registers (S (length i1)) i1 []) []
  else if d =? D_PARSE_ACM then run (parse_acm_after (aux_at aux 0) faithful i2) i1
  else if d =? D_LOCAL_FILES then run (local_files (Z.odd (aux_at aux 0)) (Z.odd (Z.shiftr (aux_at aux 0) 1)) i1) i1
  else RFuel.

(** hashes of a [CReplay] case: computed by the harness with Go crypto ((alg, message) -> digest);
    a missing entry yields [[-1]], which is not a byte string, so the comparison with the bytes the
    implementation returned fails *)
Definition hash_table := list (Z * list Z * list Z).
Fixpoint tbl_hash (t : hash_table) (a : Z) (m : list Z) : list Z :=
  match t with
  | [] => [-1]
  | (a', m', d) :: t' => if (a =? a') && zlist_eqb m m' then d else tbl_hash t' a m
  end.
(** an event of a parsed log as the harness writes it: [dg] = (algorithm, digest bytes) or nil *)
Definition ev (p t : Z) (data : list Z) (dg : option (Z * list Z)) : EventLog.event :=
  EventLog.mkEv p t data (match dg with Some (a, b) => Some (EventLog.mkDg a b) | None => None end).

Inductive case : Type :=
| CDec (d : Z) (aux i1 i2 : list Z) (o : dobs) (obs_alloc : Z)
(** tpmeventlog.Replay(log, p, a, logOut) with [wk] = 0: logOut == nil, 1: a writer, 2: a writer whose
    Write returns an error; [o] = what the call did (DOk = the returned digest) *)
| CReplay (wk : Z) (tbl : hash_table) (log : list EventLog.event) (p a : Z) (o : dobs)
(** the PEM block loop of parsePrivateKey ([who] = 0, reached through
    DecryptPrivKey) / ReadPubKey ([who] = 1) on a file of [n] bytes: [t] = the
    calls of encoding/pem.Decode the harness made on the same bytes (length of
    the argument, block type, length of the rest); [keys] = the positions whose
    block the x509 parsers of that loop accept (third party, run by the harness
    on block.Bytes); [code]: 0 = a key was returned, 1 = "failed to parse
    private/public key" (the blocks ran out), 2 = another error (from the x509
    parsers) *)
| CPem (who n : Z) (t : pem_trace) (keys : list Z) (code : Z)
(** tools.GetRegion after fiano: [found] = signature and descriptor parsed,
    [valid], [base], [limit] = the region record; [obs] = (offset, size) returned *)
| CRegion (found valid : bool) (base limit : Z) (obs : option (Z * Z))
(** tools.CalcImageOffset: what the three layout probes returned, len(image),
    the address; [ok], [v] = what the call returned (v = MaxUint64 beside an error) *)
| CCalc (ifd cb : option (Z * Z)) (bios_ok : bool) (len addr : Z) (ok : bool) (v : Z).

Definition GiB : Z := 1073741824.
Definition MiB : Z := 1048576.

(** outcome classes agree; [DCrash] (allocation beyond the address-space limit
    of the child, 4 GiB) needs a model run that allocates at least 1 GiB;
    [DTimeout] is never predicted.  For DecryptPrivKey only panic / no panic is
    compared (the rest is third-party crypto/pem/x509), except that data too
    short for the nonce must be reported as an error. *)
Definition class_match (d : Z) (o : dobs) (r : res (list Z)) : bool :=
  if d =? D_DECRYPT_FRAME then
    match o, r with
    | DPanic, RPanic => true
    | DOk _, RErr c _ => negb (c =? E_FIX)
    | DOk _, ROk _ _ => true
    | DErr, (ROk _ _ | RErr _ _) => true
    | _, _ => false
    end
  else
  match o, r with
  | DOk a, ROk b _ => zlist_eqb a b
  | DErr, RErr _ _ => true
  | DPanic, RPanic => true
  | DCrash, (ROk _ _ | RErr _ _) => GiB <=? res_alloc r
  | _, _ => false
  end.

(** allocation: the bytes the model accounts for (length-prefixed [make]s and
    the scratch buffers of binary.Read on slices) were really allocated, and
    the implementation did not allocate much more than that: at most four times
    as much plus 1 KiB per input byte plus 4 MiB. *)
Definition alloc_match (o : dobs) (obs_alloc : Z) (n_in : Z) (r : res (list Z)) : bool :=
  match o with
  | DOk _ | DErr =>
      (res_alloc r <=? obs_alloc) && (obs_alloc <=? 4 * res_alloc r + 1024 * n_in + 4 * MiB)
  | _ => true
  end.

Definition check (c : case) : bool :=
  match c with
  | CDec d aux i1 i2 o oa =>
      let r := model d aux i1 i2 in
      class_match d o r && alloc_match o oa (lenZ i1 + lenZ i2) r
  | CReplay wk tbl log p a o =>
      match replay_out (tbl_hash tbl) (writer_of wk) log p a, o with
      | Ok v, DOk s => zlist_eqb v s
      | Err _, DErr => true
      | Panic, DPanic => true
      | _, _ => false
      end
  | CPem who n t keys code =>
      (* every observed pem.Decode call meets the contract, the loop leaves where the code left, and with
         the block the code handed to the x509 parsers *)
      trace_ok t && (0 <=? n) &&
      match pem_run who t n with
      | Err _ => code =? 1
      | Ok _ => negb (code =? 1)
      | _ => false
      end && (pem_code who t keys n =? code)
  | CRegion found valid base limit obs =>
      match get_region found valid base limit, obs with
      | Ok [o; s], Some (o', s') => (o =? o') && (s =? s')
      | Err _, None => true
      | _, _ => false
      end
  | CCalc ifd cb bios_ok len addr ok v =>
      match calc_image_offset ifd cb bios_ok len addr with
      | Ok x => ok && (x =? v)
      | Err _ => negb ok && (v =? MaxUint64)
      | _ => false
      end
  end.

Definition mismatches := mismatches_by check.
