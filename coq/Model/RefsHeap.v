(** Slice-level executable model of the reference algebra of
    /repo/pkg/bootflow/types/data.go: the same functions as Model/Refs.v, but
    a [References] value is a Go slice of [Reference] structs and the [Ranges]
    field of a [Reference] is a Go slice of ranges -- windows (array, offset,
    len) into backing arrays kept in two heaps.  What an operation does to the
    memory of its receiver, of its arguments and of the results of earlier
    operations is therefore part of the model:

    - [BySystemArtifact], [Ranges] and a caller-made [copy] build their result in
      a NEW array (append to a nil slice); the [Reference] structs they copy keep
      pointing at the range arrays of the receiver;
    - fiano [Ranges.SortAndMerge] (pointer receiver) sorts the array behind the
      slice IN PLACE and, for two or more ranges, stores a NEW merged slice in
      the header it was called through (MergeRanges appends to nil);
    - [References.SortAndMerge] (pointer receiver, documented to modify its
      receiver) sorts the [Reference] structs in place, calls
      [Ranges.SortAndMerge] through every struct, compacts the groups to the front
      of the same array and shortens the slice; a group grows by
      [append(cur.Ranges[:n:n], ...)], i.e. always into a new array;
    - [Exclude] works on copies of the two [Reference] arrays ([make]+[copy]),
      sorts-and-merges the copies -- which sorts the callers' range arrays in
      place, the structs being shallow copies -- and appends to a nil result;
    - [Reference.RawBytes] sorts the range array of its receiver in place
      ([ranges := ref.Ranges; ranges.SortAndMerge()]) and reads;
    - [Resolve] (documented to modify its receiver) replaces mapper and ranges of
      the structs in place; the mappers return new slices.

    No operation appends into the spare capacity of a slice it was given, so
    capacities do not occur in the model: an array of the heap is the whole
    allocation (everything up to the capacity of the widest slice over it), a
    slice is a window of it.  sort.Slice is the insertion sort it runs for up
    to 12 elements (stable), which is what [sort_off] and [hsort] compute; the
    harness keeps reference lists and the range list of a reference that short.
    No proofs here. *)
From CSS Require Import Lib.Base Model.Ranges Model.Refs.

(** ** Arrays, slices *)

Record sl := mkSl { sl_arr : nat; sl_off : nat; sl_len : nat }.

Fixpoint upd_nth {A} (n : nat) (f : A -> A) (l : list A) : list A :=
  match l, n with
  | [], _ => []
  | x :: t, O => f x :: t
  | x :: t, S k => x :: upd_nth k f t
  end.

Section Arrays.
  Context {A : Type}.
  Definition rd (h : list (list A)) (s : sl) : list A :=
    firstn (sl_len s) (skipn (sl_off s) (nth (sl_arr s) h [])).
  Definition splice (off : nat) (vals arr : list A) : list A :=
    firstn off arr ++ vals ++ skipn (off + length vals) arr.
  (** store [vals] at index [off] of array [a] *)
  Definition wr (h : list (list A)) (a off : nat) (vals : list A) : list (list A) :=
    upd_nth a (splice off vals) h.
  (** a new array holding [vals], and the slice over all of it *)
  Definition alloc (h : list (list A)) (vals : list A) : list (list A) * sl :=
    (h ++ [vals], mkSl (length h) 0 (length vals)).
End Arrays.

Definition rheap := list (list range).

(** a [Reference] struct: the [Ranges] field is a slice header *)
Record hdr := mkHdr { hd_art : art; hd_map : mapper; hd_rs : sl }.
Definition set_rs (x : hdr) (s : sl) : hdr := mkHdr (hd_art x) (hd_map x) s.

Record mem := mkMem { m_r : rheap; m_f : list (list hdr) }.

(** what a reader sees *)
Definition hval (h : rheap) (x : hdr) : ref := mkRef (hd_art x) (hd_map x) (rd h (hd_rs x)).
Definition lval (m : mem) (s : sl) : list ref := map (hval (m_r m)) (rd (m_f m) s).

(** ** fiano Ranges *)

(** [Ranges.Sort] / the in-place half of [Ranges.SortAndMerge] *)
Definition sort_inplace (h : rheap) (s : sl) : rheap :=
  if (sl_len s <? 2)%nat then h else wr h (sl_arr s) (sl_off s) (sort_off (rd h s)).

(** [Ranges.SortAndMerge] through a pointer to the header [s]: the heap
    afterwards and the header afterwards *)
Definition rsm (h : rheap) (s : sl) : rheap * sl :=
  if (sl_len s <? 2)%nat then (h, s)
  else alloc (sort_inplace h s) (merge_ranges (sort_off (rd h s))).

(** ** References.SortAndMerge *)

(** the comparator looks at the artifacts only *)
Definition hkey (x : hdr) : ref := mkRef (hd_art x) (hd_map x) [].
Definition hcmp (a b : hdr) : cmpres := cmp_ref (hkey a) (hkey b).

Fixpoint hins (x : hdr) (l : list hdr) : list hdr :=
  match l with
  | [] => [x]
  | y :: t => if is_lt (hcmp y x) then y :: hins x t else x :: y :: t
  end.
Definition hsort (s : list hdr) : list hdr := fold_right hins [] s.

(** [for idx := range s { s[idx].Ranges.SortAndMerge() }] (s dereferenced) *)
Fixpoint rsm_all (h : rheap) (l : list hdr) : rheap * list hdr :=
  match l with
  | [] => (h, [])
  | x :: t =>
      let '(h1, s) := rsm h (hd_rs x) in
      let '(h2, t') := rsm_all h1 t in
      (h2, set_rs x s :: t')
  end.

(** the grouping loop; [cur] = curRef (holding a real reference) *)
Fixpoint hloop (h : rheap) (cur : hdr) (l : list hdr) : rheap * list hdr :=
  match l with
  | [] => let '(h1, s) := rsm h (hd_rs cur) in (h1, [set_rs cur s])
  | x :: t =>
      if art_eqb (hd_art x) (hd_art cur) && mapper_eqb (hd_map x) (hd_map cur)
      then
        (* append(cur.Ranges[:n:n], x.Ranges...) *)
        match sl_len (hd_rs x) with
        | O => hloop h cur t                      (* nothing to append: the same slice *)
        | S _ =>
            let '(h1, s) := alloc h (rd h (hd_rs cur) ++ rd h (hd_rs x)) in
            hloop h1 (set_rs cur s) t
        end
      else
        match sl_len (hd_rs cur) with
        | O => hloop h x t                        (* an empty curRef is dropped *)
        | S _ =>
            let '(h1, s) := rsm h (hd_rs cur) in
            let '(h2, out) := hloop h1 x t in
            (h2, set_rs cur s :: out)
        end
  end.

(** [s.SortAndMerge()] (pointer receiver) on the slice [s] of [Reference] structs: the memory
    afterwards and the slice afterwards (same array, shorter).  The structs the
    compaction leaves behind the new length stay in the array.  [Err 3]: two
    references make compareReferenceType panic in the middle of sort.Slice; the
    state of the array at that moment is not modelled. *)
Definition sm_h (m : mem) (s : sl) : outcome (mem * sl) :=
  match rd (m_f m) s with
  | [] => Ok (m, s)
  | l =>
      if has_conflict (map hkey l) then Err 3
      else
        let '(h1, l2) := rsm_all (m_r m) (hsort l) in
        match l2 with
        | [] => Ok (m, s)
        | x :: t =>
            let '(h2, out) := hloop h1 x t in
            Ok (mkMem h2 (wr (m_f m) (sl_arr s) (sl_off s) (out ++ skipn (length out) l2)),
                mkSl (sl_arr s) (sl_off s) (length out))
        end
  end.

(** ** References.Exclude *)

(** the two-pointer walk; a reference passed through keeps its slice header, a
    difference is stored in a new array *)
Fixpoint excl_walk_h (h : rheap) (s0 : list hdr) : list hdr -> outcome (rheap * list hdr) :=
  match s0 with
  | [] => fun _ => Ok (h, [])
  | r0 :: t0 =>
      fix inner (s1 : list hdr) : outcome (rheap * list hdr) :=
        match s1 with
        | [] => Ok (h, r0 :: t0)
        | r1 :: t1 =>
            match hcmp r0 r1 with
            | CPanic => Panic
            | CLt => bind (excl_walk_h h t0 (r1 :: t1)) (fun p => Ok (fst p, r0 :: snd p))
            | CGt => inner t1
            | CEq =>
                match exclude_ranges (rd h (hd_rs r0)) (rd h (hd_rs r1)) with
                | [] => excl_walk_h h t0 t1
                | res =>
                    let '(h1, s) := alloc h res in
                    bind (excl_walk_h h1 t0 t1) (fun p => Ok (fst p, set_rs r0 s :: snd p))
                end
            end
        end
  end.

(** a new array of [Reference] structs holding a copy of the structs of [s] *)
Definition copy_h (m : mem) (s : sl) : mem * sl :=
  let '(f, c) := alloc (m_f m) (rd (m_f m) s) in (mkMem (m_r m) f, c).

(** [s.Exclude(e...)]: the memory afterwards and the result slice *)
Definition exclude_h (m : mem) (s e : sl) : outcome (mem * sl) :=
  match sl_len s with
  | O => let '(f, x) := alloc (m_f m) [] in Ok (mkMem (m_r m) f, x)      (* nil *)
  | S _ =>
      let '(m0, c0) := copy_h m s in
      bind (sm_h m0 c0) (fun p0 =>
      let '(m1, c1) := copy_h (fst p0) e in
      bind (sm_h m1 c1) (fun p1 =>
      let m2 := fst p1 in
      bind (excl_walk_h (m_r m2) (rd (m_f m2) (snd p0)) (rd (m_f m2) (snd p1))) (fun p2 =>
      let '(f, x) := alloc (m_f m2) (snd p2) in Ok (mkMem (fst p2) f, x))))
  end.

(** ** References.Resolve, RawBytes, Ranges, BySystemArtifact *)

(** the structs afterwards and whether an error was returned *)
Fixpoint resolve_h (h : rheap) (l : list hdr) : rheap * list hdr * bool :=
  match l with
  | [] => (h, [], false)
  | x :: t =>
      if is_nil (hd_map x) then let '(h1, t', e) := resolve_h h t in (h1, x :: t', e)
      else
        match resolve (hd_map x) (zlen (acontent (hd_art x))) (rd h (hd_rs x)) with
        | Ok rs =>
            let '(h0, s) := alloc h rs in
            let '(h1, t', e) := resolve_h h0 t in
            (h1, mkHdr (hd_art x) MNil s :: t', e)
        | _ => (h, x :: t, true)
        end
  end.

(** [Reference.RawBytes] through a pointer to the struct [x] *)
Definition ref_rawbytes_h (h : rheap) (x : hdr) : rheap * outcome (list Z) :=
  let h1 := sort_inplace h (hd_rs x) in (h1, ref_rawbytes (hval h1 x)).

(** [References.RawBytes]: stops at the first reference that panics *)
Fixpoint rawbytes_h (h : rheap) (l : list hdr) : rheap * outcome (list Z) :=
  match l with
  | [] => (h, Ok [])
  | x :: t =>
      let '(h1, o) := ref_rawbytes_h h x in
      match o with
      | Ok a => let '(h2, o2) := rawbytes_h h1 t in (h2, bind o2 (fun b => Ok (a ++ b)))
      | _ => (h1, o)
      end
  end.

(** ** Programs: sequences of operations on variables *)

Inductive value := VRefs (s : sl) | VRngs (s : sl).

Record state := mkSt { st_m : mem; st_env : list value }.

Inductive op :=
| OCopy (v : nat)                 (* c := make(References, len(v)); copy(c, v) -- by the caller *)
| OBy (v : nat) (a : art)         (* v.BySystemArtifact(a) *)
| ORanges (v : nat)               (* v.Ranges() *)
| OExclude (v w : nat)            (* v.Exclude(w...) *)
| OSortMerge (v : nat)            (* v.SortAndMerge() *)
| OResolve (v : nat)              (* v.Resolve() *)
| ORawBytes (v : nat)             (* v.RawBytes() *)
| ORefBytes (v i : nat)           (* v[i].RawBytes() *)
| ORngSM (v : nat).               (* v.SortAndMerge() on a Ranges variable *)

(** what the operation handed back beside a new variable *)
Inductive res :=
| RNone
| RErr (e : bool)
| RBytes (o : outcome (list Z)).

Definition get_refs (st : state) (v : nat) : option sl :=
  match nth_error (st_env st) v with Some (VRefs s) => Some s | _ => None end.
Definition get_rngs (st : state) (v : nat) : option sl :=
  match nth_error (st_env st) v with Some (VRngs s) => Some s | _ => None end.

Fixpoint set_nth {A} (n : nat) (x : A) (l : list A) : list A :=
  match l, n with
  | [], _ => []
  | _ :: t, O => x :: t
  | y :: t, S k => y :: set_nth k x t
  end.

Definition push (st : state) (m : mem) (v : value) : state := mkSt m (st_env st ++ [v]).

(** [None]: the program is ill-formed (no such variable, wrong kind, index out
    of range) or leaves the modelled part (comparator panic). *)
Definition step (st : state) (o : op) : option (state * res) :=
  let m := st_m st in
  match o with
  | OCopy v =>
      match get_refs st v with
      | Some s => let '(m', c) := copy_h m s in Some (push st m' (VRefs c), RNone)
      | None => None
      end
  | OBy v a =>
      match get_refs st v with
      | Some s =>
          let '(f, x) := alloc (m_f m) (filter (fun y => art_eqb (hd_art y) a) (rd (m_f m) s)) in
          Some (push st (mkMem (m_r m) f) (VRefs x), RNone)
      | None => None
      end
  | ORanges v =>
      match get_refs st v with
      | Some s =>
          let '(h, x) := alloc (m_r m) (flat_map (fun y => rd (m_r m) (hd_rs y)) (rd (m_f m) s)) in
          Some (push st (mkMem h (m_f m)) (VRngs x), RNone)
      | None => None
      end
  | OExclude v w =>
      match get_refs st v, get_refs st w with
      | Some s, Some e =>
          match exclude_h m s e with
          | Ok (m', x) => Some (push st m' (VRefs x), RNone)
          | _ => None
          end
      | _, _ => None
      end
  | OSortMerge v =>
      match get_refs st v with
      | Some s =>
          match sm_h m s with
          | Ok (m', s') => Some (mkSt m' (set_nth v (VRefs s') (st_env st)), RNone)
          | _ => None
          end
      | None => None
      end
  | OResolve v =>
      match get_refs st v with
      | Some s =>
          let '(h, l, e) := resolve_h (m_r m) (rd (m_f m) s) in
          Some (mkSt (mkMem h (wr (m_f m) (sl_arr s) (sl_off s) l)) (st_env st), RErr e)
      | None => None
      end
  | ORawBytes v =>
      match get_refs st v with
      | Some s =>
          let '(h, o) := rawbytes_h (m_r m) (rd (m_f m) s) in
          Some (mkSt (mkMem h (m_f m)) (st_env st), RBytes o)
      | None => None
      end
  | ORefBytes v i =>
      match get_refs st v with
      | Some s =>
          match nth_error (rd (m_f m) s) i with
          | Some x =>
              let '(h, o) := ref_rawbytes_h (m_r m) x in
              Some (mkSt (mkMem h (m_f m)) (st_env st), RBytes o)
          | None => None
          end
      | None => None
      end
  | ORngSM v =>
      match get_rngs st v with
      | Some s =>
          let '(h, s') := rsm (m_r m) s in
          Some (mkSt (mkMem h (m_f m)) (set_nth v (VRngs s') (st_env st)), RNone)
      | None => None
      end
  end.

Fixpoint run (st : state) (ops : list op) : option state :=
  match ops with
  | [] => Some st
  | o :: t => match step st o with Some (st', _) => run st' t | None => None end
  end.
