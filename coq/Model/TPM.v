(** Model of pkg/bootflow/subsystems/trustchains/tpm (tpm.go, command_init.go,
    command_extend.go, command_event_log_add.go, pools.go, pcr/pcr.go): the
    simulated TPM as a state machine over command histories.  Executable
    definitions only; proofs live in Proofs/TPM.v.

    This is the *value-level* model: PCR banks are byte lists, logs are lists.
    The buffer recycling of Reset / DoNotUse_ResetNoInit / CommandInit.Apply is
    modelled one level lower in Model/TPMSlices.v and related to this model by a
    refinement lemma (Proofs/TPMSlices.v).

    Go types: locality uint8, PCRID uint8, Algorithm uint16, EventType uint32.
    They are plain [Z] here; the harness only produces in-range values and the
    theorems that need a range say so. *)
From CSS Require Import Lib.Base.

(** * Commands *)

(** [Startup l]              TPMInit(locality)
    [Extend p a d]           TPMExtend(pcr, alg, digest)
    [LogAdd p a d ty data]   TPMEventLogAdd(pcr, alg, digest, type, data); [data = None] is a nil slice
    [Reset]                  TPM.Reset()
    [ResetNoInit]            TPM.DoNotUse_ResetNoInit()
    The last two are method calls, not TPM commands: they are never logged. *)
Inductive cmd : Type :=
| Startup (l : Z)
| Extend (p a : Z) (d : list Z)
| LogAdd (p a : Z) (d : list Z) (ty : Z) (data : option (list Z))
| Reset
| ResetNoInit.

(** EventLogEntry{CommandExtend{PCRIndex, HashAlgo, Digest}, Type, Data} *)
Inductive event : Type :=
| EV (p a : Z) (d : list Z) (ty : Z) (data : option (list Z)).

(** * Constants of the package *)

Definition PCR_AMOUNT : nat := 2.         (* PCRRegistersAmount *)
Definition ALG_SHA1 : Z := 4.             (* tpm2.AlgSHA1 *)
Definition ALG_SHA256 : Z := 11.          (* tpm2.AlgSHA256 *)
Definition supported : list Z := [ALG_SHA1; ALG_SHA256].   (* SupportedHashAlgos() *)
Definition BANKS : nat := 12.             (* tpmMaxHashAlgo + 1 *)
Definition POOL_SIZE : Z := 65536.        (* len(hasherPools) *)

(** Digest size of a TPM algorithm ID that [tpm2.Algorithm.Hash] accepts (table
    [hashInfo] of go-tpm: SHA1, SHA256, SHA384, SHA512, SHA3-256/384/512), 0 for
    every other ID.  Whether the SHA-3 entries are "available" depends on what is
    linked into the binary; an unavailable one fails in the same call
    ([acquireHasher]) that rejects non-hash IDs, and an available one fails one
    line later in [Values.Get] (bank index >= 12), so the error class is the same. *)
Definition hsize (a : Z) : nat :=
  if a =? 4 then 20%nat
  else if a =? 11 then 32%nat
  else if a =? 12 then 48%nat
  else if a =? 13 then 64%nat
  else if a =? 39 then 32%nat
  else if a =? 40 then 48%nat
  else if a =? 41 then 64%nat
  else 0%nat.

Definition is_hash (a : Z) : bool := negb (Nat.eqb (hsize a) 0).

Definition is_supported (a : Z) : bool := (a =? ALG_SHA1) || (a =? ALG_SHA256).

(** * State *)

(** [pcrs] mirrors [PCRValues [][]Digest]: outer index PCR, inner index algorithm
    ID; [[]] is the uninitialised TPM ([IsInitialized] is [len(PCRValues) > 0]). *)
Record state : Type := mkState {
  algos  : list Z;                      (* SupportedAlgos *)
  pcrs   : list (list (list Z));        (* PCRValues *)
  cmdlog : list cmd;                    (* CommandLog (commands only; causes are nil in the harness) *)
  evlog  : list event                   (* EventLog *)
}.

(** NewTPM(), and also the state after Reset() *)
Definition fresh : state := mkState supported [] [] [].
(** after DoNotUse_ResetNoInit(): SupportedAlgos is emptied as well and nothing restores it *)
Definition blank : state := mkState [] [] [] [].

Definition initialized (st : state) : bool :=
  match pcrs st with [] => false | _ => true end.

(** * PCR access *)

Definition ERR_ALREADY_INIT : Z := 1.
Definition ERR_BAD_ALG      : Z := 2.
Definition ERR_NO_PCR       : Z := 3.
Definition ERR_NO_BANK      : Z := 4.
Definition ERR_BANK_LEN     : Z := 5.

(** Indexing by a [Z] (Go indexes by uint8/uint16 values): walking the list
    instead of converting to [nat] keeps evaluation cheap for indices like
    65535, and a negative index (outside the Go domain) is simply not found. *)
Fixpoint nthZ {A} (l : list A) (i : Z) : option A :=
  match l with
  | [] => None
  | x :: t => if i =? 0 then Some x else nthZ t (i - 1)
  end.

Fixpoint updZ {A} (i : Z) (x : A) (l : list A) : list A :=
  match l with
  | [] => []
  | y :: t => if i =? 0 then x :: t else y :: updZ (i - 1) x t
  end.

(** [Values.Get]: [len(s) <= pcrID] and [len(s[pcrID]) <= hashAlg] are errors. *)
Definition get (pv : list (list (list Z))) (p a : Z) : outcome (list Z) :=
  match nthZ pv p with
  | None => Err ERR_NO_PCR
  | Some banks =>
      match nthZ banks a with
      | None => Err ERR_NO_BANK
      | Some v => Ok v
      end
  end.

(** overwrite bank (p, a): [pcrValue] aliases [PCRValues[p][a]] and
    [hasher.Sum(pcrValue[:0])] writes the new digest into it *)
Definition set_bank (pv : list (list (list Z))) (p a : Z) (v : list Z) : list (list (list Z)) :=
  match nthZ pv p with
  | Some banks => updZ p (updZ a v banks) pv
  | None => pv
  end.

(** * Startup values *)

(** value of bank [a] of PCR [p] after TPMInit(l): zeros, PCR0 ends in the locality *)
Definition init_val (a : Z) (p : nat) (l : Z) : list Z :=
  match p with
  | O => repeat 0 (hsize a - 1) ++ [l]
  | _ => repeat 0 (hsize a)
  end.

(** banks of PCR [p]: 12 slots, only SHA1 and SHA256 are allocated *)
Definition init_banks (p : nat) (l : Z) : list (list Z) :=
  map (fun a => if is_supported a then init_val a p l else []) (seqZ 0 BANKS).

Definition init_pcrs (l : Z) : list (list (list Z)) :=
  map (fun p => init_banks p l) (seq 0 PCR_AMOUNT).

(** * Commands *)

Definition set_pcrs (st : state) (pv : list (list (list Z))) : state :=
  mkState (algos st) pv (cmdlog st) (evlog st).
Definition log_cmd (st : state) (c : cmd) : state :=
  mkState (algos st) (pcrs st) (cmdlog st ++ [c]) (evlog st).
Definition log_event (st : state) (e : event) : state :=
  mkState (algos st) (pcrs st) (cmdlog st) (evlog st ++ [e]).

Section WithHash.
(** [H alg message]: the hash function; a Section variable, never implemented. *)
Variable H : Z -> list Z -> list Z.

(** [Command.Apply] *)
Definition apply (st : state) (c : cmd) : state * outcome unit :=
  match c with
  | Startup l =>
      (* CommandInit.Apply *)
      if initialized st then (st, Err ERR_ALREADY_INIT)
      else (set_pcrs st (init_pcrs l), Ok tt)
  | Extend p a d =>
      (* CommandExtend.Apply: acquireHasher indexes hasherPools[alg] first *)
      if (a <? 0) || (POOL_SIZE <=? a) then (st, Panic)
      else if negb (is_hash a) then (st, Err ERR_BAD_ALG)
      else
        match get (pcrs st) p a with
        | Ok old =>
            if Nat.eqb (length old) (hsize a)
            then (set_pcrs st (set_bank (pcrs st) p a (H a (old ++ d))), Ok tt)
            else (st, Err ERR_BANK_LEN)
        | Err e => (st, Err e)
        | Panic => (st, Panic)
        | OutOfFuel => (st, OutOfFuel)
        end
  | LogAdd p a d ty data =>
      (* CommandEventLogAdd.Apply: no validation at all *)
      (log_event st (EV p a d ty data), Ok tt)
  | Reset => (fresh, Ok tt)
  | ResetNoInit => (blank, Ok tt)
  end.

(** [TPMExecute]: the command is appended to CommandLog first, then applied.
    [Reset]/[ResetNoInit] are plain method calls. *)
Definition step (st : state) (c : cmd) : state * outcome unit :=
  match c with
  | Reset | ResetNoInit => apply st c
  | _ => apply (log_cmd st c) c
  end.

Fixpoint run (st : state) (h : list cmd) : state :=
  match h with
  | [] => st
  | c :: t => run (fst (step st c)) t
  end.

(** outcomes of the commands of a history, in order *)
Fixpoint results (st : state) (h : list cmd) : list (outcome unit) :=
  match h with
  | [] => []
  | c :: t => snd (step st c) :: results (fst (step st c)) t
  end.

End WithHash.

(** * Executable hash: lookup in a table supplied by the harness *)

Definition hash_table : Type := list ((Z * list Z) * list Z).

(** A missing entry yields [[-1]], which is not a byte string and has the wrong
    length, so the case is reported as a mismatch. *)
Fixpoint H_tbl (t : hash_table) (a : Z) (m : list Z) : list Z :=
  match t with
  | [] => [-1]
  | ((a', m'), d) :: t' => if (a =? a') && zlist_eqb m m' then d else H_tbl t' a m
  end.
