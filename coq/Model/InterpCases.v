(** Case language of the C09 correspondence check.  The Go harness
    (harness/cmd/c09) builds real flows with the public constructors, runs
    [bootengine.NewBootProcess(state).Finish] (or a bounded number of
    [NextStep] calls for cyclic families) and writes what it observed in
    [BootProcess.Log] and in the final [types.State]; [check] re-runs the
    machine model AND the specification on the same family.

    The harness writes [CHFinish] / [CHSteps]: the family comes with its
    memory layout (Model/InterpHeap.v), the machine evaluated is the
    slice-level [run_h] — its log and state read through the final heap
    (Proofs/InterpHeap.v [run_keeps_family]: this is [run] on the family as
    defined), where each logged slice points, the definition's arrays after
    the run — and the specification is evaluated on the family as defined
    before the run ([resolve_family]).  [CFinish] / [CSteps] are the same
    without a layout.  [CHSession] is a program of several operations
    (Model/InterpSession.v: NextStep calls, Finish, State.SetFlow) applied to
    ONE BootProcess, evaluated on the slice-level session machine [session_h]
    and compared, besides the final observation, with the trace the harness
    recorded after every operation (log length, end reported). *)
From CSS Require Import Lib.Base Lib.Cases Model.Interp Model.InterpHeap Model.InterpSession.

(** observed log entry: step id, action codes, issue codes, measured ids,
    actor, actor whose code was attached *)
Definition oentry : Type := Z * list (Z * Z) * list Z * list Z * option Z * option Z.

(** observed result: log, final (flow, StepIndex, ActionIndex), final
    MeasuredData ids, final actor, TPM initialised?, NextStep returned false *)
Definition oresult : Type :=
  list oentry * (Z * Z * Z) * list Z * option Z * option bool * bool.

(** slice-level observation: for every log entry where [StepResult.Actions]
    points — [Some (arr, off)]: into array [arr] of the flow definition at
    offset [off]; [None]: nil, or memory that is not part of the definition —
    and the arrays of the definition in which some slot holds another action
    object AFTER the run than before it, with their contents (action codes,
    every slot) after the run; an array that is not listed was found
    unchanged, slot by slot *)
Definition hobs : Type := list (option (nat * nat)) * list (nat * list (Z * Z)).

Inductive case : Type :=
(* Finish on a stratified family *)
| CFinish (fam : family) (c0 : core) (root : Z) (o : obs oresult)
(* at most k NextStep calls on any family *)
| CSteps (fam : family) (c0 : core) (root : Z) (k : nat) (o : obs oresult)
(* the same two with the memory layout of the definition: action arrays [h],
   steps = windows into them *)
| CHFinish (h : heap) (fam : hfamily) (c0 : core) (root : Z) (o : obs oresult) (ho : hobs)
| CHSteps (h : heap) (fam : hfamily) (c0 : core) (root : Z) (k : nat) (o : obs oresult) (ho : hobs)
(* a session (Model/InterpSession.v): several operations on ONE BootProcess —
   NextStep calls (whatever they return), Finish, State.SetFlow between calls —
   with the trace the harness recorded: after every operation the length of
   the Log and whether the end of the flow was reported; the flag of [o] is
   the one of the last operation *)
| CHSession (h : heap) (fam : hfamily) (c0 : core) (root : Z) (ops : list op) (o : obs oresult) (ho : hobs)
            (tr : trace).

Definition optz (a : option Z) : Z := match a with Some x => x + 1 | None => 0 end.

(** how the harness names the dynamic type and parameter of an action *)
Definition acode (a : action) : Z * Z :=
  match a with
  | ASetFlow g => (1, g)
  | ASetActor x => (2, optz x)
  | APanic => (3, 0)
  | ATPMInit => (4, 0)
  | ATPMLogAdd => (5, 0)
  | ATPMMeasure id _ => (6, id)
  | ACustom id _ _ _ => (7, id)
  | ASetFlowFunc _ _ => (8, 0)     (* which function it carries is not observable *)
  end.

Definition icode (i : icoord) : Z :=
  match i with ICActions => -1 | ICAction k => k | ICActor => -2 end.

Definition entry_obs (e : entry) : oentry :=
  (e_sid e, map acode (e_actions e), map icode (e_issues e), e_measured e, e_actor e, e_code e).

Definition pair_eqb (a b : Z * Z) : bool := (fst a =? fst b) && (snd a =? snd b).

Definition oentry_eqb (a b : oentry) : bool :=
  let '(s1, ac1, is1, m1, a1, c1) := a in
  let '(s2, ac2, is2, m2, a2, c2) := b in
  (s1 =? s2) && list_eqb pair_eqb ac1 ac2 && zlist_eqb is1 is2 && zlist_eqb m1 m2
  && opt_eqb a1 a2 && opt_eqb c1 c2.

Definition optb_eqb (a b : option bool) : bool :=
  match a, b with
  | None, None => true
  | Some x, Some y => Bool.eqb x y
  | _, _ => false
  end.

Definition machine_obs (r : mstate * list entry * bool) : oresult :=
  let '(st, log, d) := r in
  (map entry_obs log, (ms_flow st, ms_step st, ms_act st), c_measured (ms_core st),
   c_actor (ms_core st), c_tpm (ms_core st), d).

Definition oresult_eqb (a b : oresult) : bool :=
  let '(l1, (f1, s1, i1), m1, a1, t1, d1) := a in
  let '(l2, (f2, s2, i2), m2, a2, t2, d2) := b in
  list_eqb oentry_eqb l1 l2 && (f1 =? f2) && (s1 =? s2) && (i1 =? i2) && zlist_eqb m1 m2
  && opt_eqb a1 a2 && optb_eqb t1 t2 && Bool.eqb d1 d2.

(** the part of an observation the specification speaks about *)
Definition spec_matches (o : oresult) (log : list entry) (c : core) (d : bool) : bool :=
  let '(l, _, m, a, t, d') := o in
  list_eqb oentry_eqb l (map entry_obs log) && zlist_eqb m (c_measured c)
  && opt_eqb a (c_actor c) && optb_eqb t (c_tpm c) && Bool.eqb d d'.

Definition loc_of (n : nat) (s : option slice) : option (nat * nat) :=
  match s with
  | None => None
  | Some s => if Nat.ltb (sl_arr s) n then Some (sl_arr s, sl_off s) else None
  end.

Definition loc_eqb (a b : option (nat * nat)) : bool :=
  match a, b with
  | None, None => true
  | Some (x1, y1), Some (x2, y2) => Nat.eqb x1 x2 && Nat.eqb y1 y2
  | _, _ => false
  end.

Fixpoint changed_lookup (ch : list (nat * list (Z * Z))) (k : nat) : option (list (Z * Z)) :=
  match ch with
  | [] => None
  | (i, codes) :: t => if Nat.eqb i k then Some codes else changed_lookup t k
  end.

(** array [k] of the definition after the run, model ([after]) against
    observation: the observed contents when the harness found it changed,
    what it held before the run otherwise *)
Fixpoint arrays_match (ch : list (nat * list (Z * Z))) (before after : heap) (k : nat) : bool :=
  match before, after with
  | [], [] => true
  | b :: bt, a :: at' =>
      list_eqb pair_eqb (match changed_lookup ch k with Some codes => codes | None => map acode b end)
               (map acode a)
      && arrays_match ch bt at' (S k)
  | _, _ => false
  end.

(** the slice-level machine against the observation: log and state read
    through the FINAL heap, where each logged slice points, and what the
    definition's arrays hold after the run *)
Definition hcheck (h : heap) (r : outcome (mstate * heap * list hentry * bool))
  (o : obs oresult) (ho : hobs) : bool :=
  match r, o with
  | Ok (st, h', log, d), OOk ro =>
      oresult_eqb ro (machine_obs (st, map (read_entry h') log, d))
      && list_eqb loc_eqb (fst ho) (map (fun e => loc_of (length h) (he_actions e)) log)
      && arrays_match (snd ho) h (firstn (length h) h') 0
  | Panic, OPanic => true
  | _, _ => false
  end.

Definition trace_eqb (a b : trace) : bool :=
  list_eqb (fun x y : nat * bool => Nat.eqb (fst x) (fst y) && Bool.eqb (snd x) (snd y)) a b.

Definition last_flag (tr : trace) : bool :=
  match rev tr with [] => false | (_, d) :: _ => d end.

Definition check (c : case) : bool :=
  match c with
  | CHSession h hfam c0 root ops o ho tr =>
      let fam := resolve_family h hfam in
      wf_family (length h) hfam
      && (if has_finish ops then stratified fam else true)
      && match session_h grow_exact (fuel_bound fam) hfam ops (init_state root c0) h [] [] with
         | Ok (st, h', log, tr') =>
             trace_eqb tr tr' && hcheck h (Ok (st, h', log, last_flag tr')) o ho
         | Panic => match o with OPanic => true | _ => false end
         | _ => false
         end
  | CHFinish h hfam c0 root o ho =>
      let fam := resolve_family h hfam in
      wf_family (length h) hfam && stratified fam
      && hcheck h (run_h grow_exact (fuel_bound fam) hfam (init_state root c0) h []) o ho
      && match o with
         | OOk r => let '(log, c') := exec_flow fam root c0 in spec_matches r log c' true
         | _ => false
         end
  | CHSteps h hfam c0 root k o ho =>
      let fam := resolve_family h hfam in
      wf_family (length h) hfam
      && hcheck h (run_h grow_exact k hfam (init_state root c0) h []) o ho
      && match o with
         | OOk r => let '(log, c', d) := spec_run k fam (flow_steps fam root) c0 in spec_matches r log c' d
         | _ => false
         end
  | CFinish fam c0 root o =>
      stratified fam
      && obs_match oresult_eqb
           (match o with OOk r => OOk r | OErr => OErr | OPanic => OPanic end)
           (match run (fuel_bound fam) fam (init_state root c0) [] with
            | Ok r => Ok (machine_obs r) | Err e => Err e | Panic => Panic | OutOfFuel => OutOfFuel end)
      && match o with
         | OOk r => let '(log, c') := exec_flow fam root c0 in spec_matches r log c' true
         | _ => false
         end
  | CSteps fam c0 root k o =>
      obs_match oresult_eqb o
           (match run k fam (init_state root c0) [] with
            | Ok r => Ok (machine_obs r) | Err e => Err e | Panic => Panic | OutOfFuel => OutOfFuel end)
      && match o with
         | OOk r => let '(log, c', d) := spec_run k fam (flow_steps fam root) c0 in spec_matches r log c' d
         | _ => false
         end
  end.

Definition mismatches := mismatches_by check.
