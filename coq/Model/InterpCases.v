(** Case language of the C09 correspondence check.  The Go harness
    (harness/cmd/c09) builds real flows with the public constructors, runs
    [bootengine.NewBootProcess(state).Finish] (or a bounded number of
    [NextStep] calls for cyclic families) and writes what it observed in
    [BootProcess.Log] and in the final [types.State]; [check] re-runs the
    machine model AND the specification on the same family. *)
From CSS Require Import Lib.Base Lib.Cases Model.Interp.

(** observed log entry: step id, action codes, issue codes, measured ids,
    actor, actor whose code was attached *)
Definition oentry : Type := Z * list (Z * Z) * list Z * list Z * option Z * option Z.

(** observed result: log, final (flow, StepIndex, ActionIndex), final
    MeasuredData ids, final actor, TPM initialised?, NextStep returned false *)
Definition oresult : Type :=
  list oentry * (Z * Z * Z) * list Z * option Z * option bool * bool.

Inductive case : Type :=
(* Finish on a stratified family *)
| CFinish (fam : family) (c0 : core) (root : Z) (o : obs oresult)
(* at most k NextStep calls on any family *)
| CSteps (fam : family) (c0 : core) (root : Z) (k : nat) (o : obs oresult).

Definition optz (a : option Z) : Z := match a with Some x => x + 1 | None => 0 end.

(** how the harness names the dynamic type and parameter of an action *)
Definition acode (a : action) : Z * Z :=
  match a with
  | ASetFlow g => (1, g)
  | ASetActor x => (2, optz x)
  | APanic => (3, 0)
  | ATPMInit => (4, 0)
  | ATPMLogAdd => (5, 0)
  | ATPMMeasure id _ => (6, id)
  | ACustom id _ _ _ => (7, id)
  | ASetFlowFunc _ _ => (8, 0)     (* which function it carries is not observable *)
  end.

Definition icode (i : icoord) : Z :=
  match i with ICActions => -1 | ICAction k => k | ICActor => -2 end.

Definition entry_obs (e : entry) : oentry :=
  (e_sid e, map acode (e_actions e), map icode (e_issues e), e_measured e, e_actor e, e_code e).

Definition pair_eqb (a b : Z * Z) : bool := (fst a =? fst b) && (snd a =? snd b).

Definition oentry_eqb (a b : oentry) : bool :=
  let '(s1, ac1, is1, m1, a1, c1) := a in
  let '(s2, ac2, is2, m2, a2, c2) := b in
  (s1 =? s2) && list_eqb pair_eqb ac1 ac2 && zlist_eqb is1 is2 && zlist_eqb m1 m2
  && opt_eqb a1 a2 && opt_eqb c1 c2.

Definition optb_eqb (a b : option bool) : bool :=
  match a, b with
  | None, None => true
  | Some x, Some y => Bool.eqb x y
  | _, _ => false
  end.

Definition machine_obs (r : mstate * list entry * bool) : oresult :=
  let '(st, log, d) := r in
  (map entry_obs log, (ms_flow st, ms_step st, ms_act st), c_measured (ms_core st),
   c_actor (ms_core st), c_tpm (ms_core st), d).

Definition oresult_eqb (a b : oresult) : bool :=
  let '(l1, (f1, s1, i1), m1, a1, t1, d1) := a in
  let '(l2, (f2, s2, i2), m2, a2, t2, d2) := b in
  list_eqb oentry_eqb l1 l2 && (f1 =? f2) && (s1 =? s2) && (i1 =? i2) && zlist_eqb m1 m2
  && opt_eqb a1 a2 && optb_eqb t1 t2 && Bool.eqb d1 d2.

(** the part of an observation the specification speaks about *)
Definition spec_matches (o : oresult) (log : list entry) (c : core) (d : bool) : bool :=
  let '(l, _, m, a, t, d') := o in
  list_eqb oentry_eqb l (map entry_obs log) && zlist_eqb m (c_measured c)
  && opt_eqb a (c_actor c) && optb_eqb t (c_tpm c) && Bool.eqb d d'.

Definition check (c : case) : bool :=
  match c with
  | CFinish fam c0 root o =>
      stratified fam
      && obs_match oresult_eqb
           (match o with OOk r => OOk r | OErr => OErr | OPanic => OPanic end)
           (match run (fuel_bound fam) fam (init_state root c0) [] with
            | Ok r => Ok (machine_obs r) | Err e => Err e | Panic => Panic | OutOfFuel => OutOfFuel end)
      && match o with
         | OOk r => let '(log, c') := exec_flow fam root c0 in spec_matches r log c' true
         | _ => false
         end
  | CSteps fam c0 root k o =>
      obs_match oresult_eqb o
           (match run k fam (init_state root c0) [] with
            | Ok r => Ok (machine_obs r) | Err e => Err e | Panic => Panic | OutOfFuel => OutOfFuel end)
      && match o with
         | OOk r => let '(log, c', d) := spec_run k fam (flow_steps fam root) c0 in spec_matches r log c' d
         | _ => false
         end
  end.

Definition mismatches := mismatches_by check.
