(** Executable model of pkg/tools/lcp.go (the part behind property C17):
    the two fixed-size launch-control-policy structs, their little-endian
    [binary.Write] layout, [ParsePolicy] / [parsePolicy] / [parsePolicy2],
    [GenLCPPolicyV2] / [genLCPHash] and the three flag-word encoders/decoders.

    Faithful to the code as it is, including
    - the error class of a short read ([io.EOF] when nothing is left,
      [io.ErrUnexpectedEOF] when some but not enough bytes are left) and the
      tolerated [io.EOF] of the hash read in [parsePolicy2];
    - the hash length chosen by [HashAlg] while [LCPPolicy2.PolicyHash] is a
      [[32]byte]: a 48/64-byte digest is cut to 32 bytes by [copy], a 20-byte one
      is zero-padded;
    - [GenLCPPolicyV2] replacing every version <= 0x300 by 0x300.
    No proofs here. *)
From CSS Require Import Lib.Base.

(** error classes (the harness classifies the Go error the same way) *)
Definition E_EOF       : Z := 1.  (* io.EOF *)
Definition E_UEOF      : Z := 2.  (* io.ErrUnexpectedEOF *)
Definition E_CANTPARSE : Z := 3.  (* "can't parse LCP Policy": 0x204 < version < 0x300 *)
Definition E_HASHALG   : Z := 4.  (* tpm2.Algorithm.Hash(): not a hash / not linked in *)
Definition E_GENALG    : Z := 5.  (* GenLCPPolicyV2: "invalid hash algorithm" *)

(** ** constants of lcp.go *)
Definition LCPPolicyVersion2 : Z := 516.   (* 0x0204 *)
Definition LCPPolicyVersion3 : Z := 768.   (* 0x0300 *)
Definition LCPPolicyTypeAny  : Z := 1.

Definition AlgSHA1   : Z := 4.
Definition AlgSHA256 : Z := 11.
Definition AlgSHA384 : Z := 12.
Definition AlgSHA512 : Z := 13.
Definition AlgSHA3_256 : Z := 39.
Definition AlgSHA3_384 : Z := 40.
Definition AlgSHA3_512 : Z := 41.

(* Go's crypto.Hash numbering *)
Definition CryptoSHA1   : Z := 3.
Definition CryptoSHA256 : Z := 5.
Definition CryptoSHA384 : Z := 6.

Definition LCPPolicyControlNPW           : Z := 1.
Definition LCPPolicyControlSinitCaps     : Z := 2.
Definition LCPPolicyControlOwnerEnforced : Z := 4.
Definition LCPPolicyControlAuxDelete     : Z := 2147483648. (* 0x80000000 *)

Definition SigRSA2048SHA1     : Z := 4.
Definition SigRSA2048SHA256   : Z := 8.
Definition SigRSA3072SHA256   : Z := 64.
Definition SigRSA3072SHA384   : Z := 128.
Definition SigECDSAP256SHA256 : Z := 4096.
Definition SigECDSAP384SHA384 : Z := 8192.
Definition SigSM2SM2CurveSM3  : Z := 65536.

(** ** little-endian integers *)
Fixpoint le_enc (n : nat) (v : Z) : list Z :=
  match n with O => [] | S n' => v mod 256 :: le_enc n' (v / 256) end.
Fixpoint le_dec (l : list Z) : Z :=
  match l with [] => 0 | b :: t => b + 256 * le_dec t end.

(** [[n]uint16] arrays *)
Fixpoint dec16s (l : list Z) : list Z :=
  match l with a :: b :: t => (a + 256 * b) :: dec16s t | _ => [] end.
Definition enc16s (l : list Z) : list Z := flat_map (le_enc 2) l.

(** a Go fixed-size array filled from a slice by [copy]: cut or zero-padded *)
Definition fix_len (n : nat) (l : list Z) : list Z := firstn n (l ++ repeat 0 n).

(** ** [binary.Read] of a fixed-size value from a [bytes.Reader] = [io.ReadFull] *)
Definition read_n (n : nat) (l : list Z) : outcome (list Z * list Z) :=
  match n with
  | O => Ok ([], l)
  | _ => match l with
         | [] => Err E_EOF
         | _ => if (length l <? n)%nat then Err E_UEOF else Ok (firstn n l, skipn n l)
         end
  end.

Definition rd_u (n : nat) (l : list Z) : outcome (Z * list Z) :=
  bind (read_n n l) (fun '(a, r) => Ok (le_dec a, r)).

(** ** the two structs *)
(* LCPPolicy: the TPM 1.2 layout ("v2", versions <= 0x204), 54 bytes *)
Record policy1 : Type := MkP1 {
  p1_version : Z;      (* uint16 *)
  p1_hashalg : Z;      (* uint8  *)
  p1_ptype : Z;        (* uint8  *)
  p1_sinit : Z;        (* uint8  *)
  p1_reserved : Z;     (* uint8  *)
  p1_drc : list Z;     (* [8]uint16 *)
  p1_pc : Z;           (* uint32 *)
  p1_maxsinit : Z;     (* uint8  *)
  p1_res1 : Z;         (* uint8  *)
  p1_res2 : Z;         (* uint16 *)
  p1_res3 : Z;         (* uint32 *)
  p1_hash : list Z     (* [20]byte *)
}.

(* LCPPolicy2: the TPM 2.0 layout ("v3", versions >= 0x300), 70 bytes *)
Record policy2 : Type := MkP2 {
  p2_version : Z;      (* uint16 *)
  p2_hashalg : Z;      (* uint16, TPM_ALG_ID *)
  p2_ptype : Z;        (* uint8  *)
  p2_sinit : Z;        (* uint8  *)
  p2_drc : list Z;     (* [8]uint16 *)
  p2_pc : Z;           (* uint32 *)
  p2_maxsinit : Z;     (* uint8  *)
  p2_reserved : Z;     (* uint8  *)
  p2_hmask : Z;        (* uint16 *)
  p2_smask : Z;        (* uint32 *)
  p2_res2 : Z;         (* uint32 *)
  p2_hash : list Z     (* [32]byte *)
}.

(** ** [binary.Write(buf, LittleEndian, pol)] *)
Definition encode1 (p : policy1) : list Z :=
  le_enc 2 (p1_version p) ++ le_enc 1 (p1_hashalg p) ++ le_enc 1 (p1_ptype p) ++
  le_enc 1 (p1_sinit p) ++ le_enc 1 (p1_reserved p) ++ enc16s (fix_len 8 (p1_drc p)) ++
  le_enc 4 (p1_pc p) ++ le_enc 1 (p1_maxsinit p) ++ le_enc 1 (p1_res1 p) ++
  le_enc 2 (p1_res2 p) ++ le_enc 4 (p1_res3 p) ++ fix_len 20 (p1_hash p).

Definition encode2 (p : policy2) : list Z :=
  le_enc 2 (p2_version p) ++ le_enc 2 (p2_hashalg p) ++ le_enc 1 (p2_ptype p) ++
  le_enc 1 (p2_sinit p) ++ enc16s (fix_len 8 (p2_drc p)) ++ le_enc 4 (p2_pc p) ++
  le_enc 1 (p2_maxsinit p) ++ le_enc 1 (p2_reserved p) ++ le_enc 2 (p2_hmask p) ++
  le_enc 4 (p2_smask p) ++ le_enc 4 (p2_res2 p) ++ fix_len 32 (p2_hash p).

(** ** parsers *)
Definition parse1 (l : list Z) : outcome policy1 :=
  bind (rd_u 2 l)    (fun '(ver, l) =>
  bind (rd_u 1 l)    (fun '(alg, l) =>
  bind (rd_u 1 l)    (fun '(pt, l) =>
  bind (rd_u 1 l)    (fun '(sinit, l) =>
  bind (rd_u 1 l)    (fun '(res, l) =>
  bind (read_n 16 l) (fun '(drc, l) =>
  bind (rd_u 4 l)    (fun '(pc, l) =>
  bind (rd_u 1 l)    (fun '(ms, l) =>
  bind (rd_u 1 l)    (fun '(r1, l) =>
  bind (rd_u 2 l)    (fun '(r2, l) =>
  bind (rd_u 4 l)    (fun '(r3, l) =>
  bind (read_n 20 l) (fun '(h, _) =>
  Ok (MkP1 ver alg pt sinit res (dec16s drc) pc ms r1 r2 r3 h))))))))))))).

(** [tpm2.Algorithm.Hash()] then [crypto.Hash.Size()]; [sha3] says whether the
    SHA-3 implementations are linked into the binary ([crypto.Hash.Available]) *)
Definition hash_size (sha3 : bool) (alg : Z) : option nat :=
  if alg =? AlgSHA1 then Some 20%nat
  else if alg =? AlgSHA256 then Some 32%nat
  else if alg =? AlgSHA384 then Some 48%nat
  else if alg =? AlgSHA512 then Some 64%nat
  else if alg =? AlgSHA3_256 then (if sha3 then Some 32%nat else None)
  else if alg =? AlgSHA3_384 then (if sha3 then Some 48%nat else None)
  else if alg =? AlgSHA3_512 then (if sha3 then Some 64%nat else None)
  else None.

Definition parse2 (sha3 : bool) (l : list Z) : outcome policy2 :=
  bind (rd_u 2 l)    (fun '(ver, l) =>
  bind (rd_u 2 l)    (fun '(alg, l) =>
  bind (rd_u 1 l)    (fun '(pt, l) =>
  bind (rd_u 1 l)    (fun '(sinit, l) =>
  bind (read_n 16 l) (fun '(drc, l) =>
  bind (rd_u 4 l)    (fun '(pc, l) =>
  bind (rd_u 1 l)    (fun '(ms, l) =>
  bind (rd_u 1 l)    (fun '(res, l) =>
  bind (rd_u 2 l)    (fun '(hm, l) =>
  bind (rd_u 4 l)    (fun '(sm, l) =>
  bind (rd_u 4 l)    (fun '(r2, l) =>
  match hash_size sha3 alg with
  | None => Err E_HASHALG
  | Some sz =>
      (* hash := make([]byte, sz); err = binary.Read(...); if err != nil && err != io.EOF {return} *)
      let mk h := Ok (MkP2 ver alg pt sinit (dec16s drc) pc ms res hm sm r2 (fix_len 32 h)) in
      match read_n sz l with
      | Ok (h, _) => mk h
      | Err c => if c =? E_EOF then mk (repeat 0 sz) else Err c
      | Panic => Panic
      | OutOfFuel => OutOfFuel
      end
  end))))))))))).

(** [ParsePolicy]: exactly one of the two results is non-nil on success *)
Definition parse (sha3 : bool) (l : list Z) : outcome (policy1 + policy2) :=
  bind (rd_u 2 l) (fun '(ver, _) =>
    if ver <=? LCPPolicyVersion2 then bind (parse1 l) (fun p => Ok (inl p))
    else if ver >=? LCPPolicyVersion3 then bind (parse2 sha3 l) (fun p => Ok (inr p))
    else Err E_CANTPARSE).

(** ** flag words *)
Record pctrl : Type := MkPC { pc_npw : bool; pc_owner : bool; pc_auxdel : bool; pc_sinitcaps : bool }.
Record ahash : Type := MkAH { ah_sha1 : bool; ah_sha256 : bool; ah_sha384 : bool; ah_sm3 : bool }.
Record asig : Type := MkAS {
  as_rsa2048sha1 : bool; as_rsa2048sha256 : bool; as_rsa3072sha256 : bool; as_rsa3072sha384 : bool;
  as_ecdsap256sha256 : bool; as_ecdsap384sha384 : bool; as_sm2 : bool }.

(* (w >> k) & 1 != 0 *)
Definition bit (w : Z) (k : Z) : bool := negb (Z.land (Z.shiftr w k) 1 =? 0).

(* ParsePolicyControl / ParsePolicyControl2 (identical bodies) *)
Definition parse_pc (w : Z) : pctrl :=
  {| pc_npw := bit w 0; pc_sinitcaps := bit w 1; pc_auxdel := bit w 31; pc_owner := bit w 2 |}.
Definition parse_ah (w : Z) : ahash :=
  {| ah_sha1 := bit w 0; ah_sha256 := bit w 3; ah_sha384 := bit w 6; ah_sm3 := bit w 5 |}.
Definition parse_as (w : Z) : asig :=
  {| as_rsa2048sha1 := bit w 2; as_rsa2048sha256 := bit w 3; as_rsa3072sha256 := bit w 6;
     as_rsa3072sha384 := bit w 7; as_ecdsap256sha256 := bit w 12; as_ecdsap384sha384 := bit w 13;
     as_sm2 := bit w 16 |}.

(* if flag { p += c }  in uintN arithmetic *)
Definition addif (wrap : Z -> Z) (b : bool) (c : Z) (p : Z) : Z := if b then wrap (p + c) else p.

Definition decon_pc (pc : pctrl) : Z :=
  let p := 0 in
  let p := addif wrap32 (pc_npw pc) LCPPolicyControlNPW p in
  let p := addif wrap32 (pc_sinitcaps pc) LCPPolicyControlSinitCaps p in
  let p := addif wrap32 (pc_owner pc) LCPPolicyControlOwnerEnforced p in
  addif wrap32 (pc_auxdel pc) LCPPolicyControlAuxDelete p.

Definition decon_as (a : asig) : Z :=
  let p := 0 in
  let p := addif wrap32 (as_rsa2048sha1 a) SigRSA2048SHA1 p in
  let p := addif wrap32 (as_rsa2048sha256 a) SigRSA2048SHA256 p in
  let p := addif wrap32 (as_rsa3072sha256 a) SigRSA3072SHA256 p in
  let p := addif wrap32 (as_rsa3072sha384 a) SigRSA3072SHA384 p in
  let p := addif wrap32 (as_ecdsap256sha256 a) SigECDSAP256SHA256 p in
  let p := addif wrap32 (as_ecdsap384sha384 a) SigECDSAP384SHA384 p in
  addif wrap32 (as_sm2 a) SigSM2SM2CurveSM3 p.

Definition decon_ah (a : ahash) : Z :=
  let p := if ah_sha1 a then 1 else 0 in      (* appr = uint16(0x0001): an assignment, not += *)
  let p := addif wrap16 (ah_sha256 a) 8 p in
  let p := addif wrap16 (ah_sha384 a) 64 p in
  addif wrap16 (ah_sm3 a) 32 p.

(** ** [GenLCPPolicyV2] *)
(* HashAlgMap[hashAlg] together with hashAlg.Size() *)
Definition hash_alg_map (h : Z) : option (Z * nat) :=
  if h =? CryptoSHA1 then Some (AlgSHA1, 20%nat)
  else if h =? CryptoSHA256 then Some (AlgSHA256, 32%nat)
  else if h =? CryptoSHA384 then Some (AlgSHA384, 48%nat)
  else None.

(* genLCPHash: binary.Read of alg.Size() bytes from the digest; a longer digest is cut *)
Definition gen_lcp_hash (sz : nat) (hash : list Z) : outcome (list Z) :=
  bind (read_n sz hash) (fun '(h, _) => Ok (firstn sz h)).

Definition gen (version hashid : Z) (hash : list Z) (sinitmin : Z)
               (pc : pctrl) (ah : ahash) (sg : asig) : outcome policy2 :=
  match hash_alg_map hashid with
  | None => Err E_GENALG
  | Some (alg, sz) =>
      bind (gen_lcp_hash sz hash) (fun lcph =>
        let v := if version <=? LCPPolicyVersion3 then LCPPolicyVersion3 else version in
        Ok (MkP2 v alg LCPPolicyTypeAny sinitmin (repeat 0 8%nat) (decon_pc pc) 0 0
                 (decon_ah ah) (decon_as sg) 0 (fix_len 32 lcph)))
  end.
