(** Slice-level model of [Step.Actions] and of the interpreter's log: WHO OWNS
    THE MEMORY of an action list.

    Model/Interp.v treats the action list of a step as a value.  In Go it is
    a slice: [types.StaticStep] is [type StaticStep Actions] and its
    [Actions()] returns the step's OWN slice (no copy); the harness-defined
    custom step does the same; [commonsteps.If] hands the slice of the chosen
    branch through; [commonsteps.MergeSteps] builds a new list with
    [append] starting from a nil slice; every other step returns a fresh
    literal.  [BootProcess.NextStep] stores the slice it got in
    [StepResult.Actions].  So after a run the flow definition, the lists
    returned by the steps and the log share backing arrays, and any [append]
    onto a slice that was handed out by a step would write into memory owned
    by the flow definition when that slice has spare capacity.

    Here a flow definition is a family of steps whose static action lists are
    WINDOWS [(array, offset, length, capacity)] into a heap of action arrays
    (several steps may be windows of one array, windows may overlap, a window
    may have spare capacity that is another step's content), [actions_h] is
    the code-shaped [Actions()] returning a slice and the heap after the
    call, and [run_h] is the interpreter keeping slices in its log.
    Proofs/InterpHeap.v shows that the heap is only ever EXTENDED (no array
    that existed before a call is written), whatever the growth policy of
    [append], and that reading the slices gives exactly the value-level model
    of Model/Interp.v run on the family as defined before the run.

    Arrays are lists of their initialised slots; the capacity of a slice may
    reach beyond them only for arrays allocated by [append] itself. *)
From CSS Require Import Lib.Base Model.Interp.

Definition heap : Type := list (list action).

Record slice := mkSl {
  sl_arr : nat;     (* which backing array *)
  sl_off : nat;     (* index of the first element in it *)
  sl_len : nat;
  sl_cap : nat
}.

Definition read_sl (h : heap) (s : slice) : list action :=
  firstn (sl_len s) (skipn (sl_off s) (nth (sl_arr s) h [])).

(** [None] is the nil slice *)
Definition read (h : heap) (s : option slice) : list action :=
  match s with None => [] | Some s => read_sl h s end.

(** * Steps whose action lists live in the heap *)

Inductive hstep :=
| HStatic (s : option slice)                 (* types.StaticStep(window) / StaticStep(nil) *)
| HIf (c : cond) (t e : option hstep)
| HMerge (ss : list (option hstep))
| HSetFlow (g : Z)
| HSetActor (a : option Z)
| HPanic
| HInitTPM (withLog : bool)
| HCustom (id : Z) (panics : bool) (s : option slice)   (* harness step returning its own slice *)
| HSetFlowFunc (id : Z) (fn : ffun)
| HLogInit
| HNil.                                      (* a nil step *)

Definition htstep : Type := Z * hstep.
Definition hfamily : Type := list (Z * list htstep).

Definition omap {A B} (f : A -> B) (o : option A) : option B :=
  match o with Some a => Some (f a) | None => None end.

(** the step as a value: what its windows read in heap [h] *)
Fixpoint resolve (h : heap) (s : hstep) : step :=
  match s with
  | HStatic sl => SStatic (read h sl)
  | HIf c t e => SIf c (omap (resolve h) t) (omap (resolve h) e)
  | HMerge ss => SMerge (map (omap (resolve h)) ss)
  | HSetFlow g => SSetFlow g
  | HSetActor a => SSetActor a
  | HPanic => SPanic
  | HInitTPM wl => SInitTPM wl
  | HCustom id p sl => SCustom id p (read h sl)
  | HSetFlowFunc id fn => SSetFlowFunc id fn
  | HLogInit => SLogInit
  | HNil => SNil
  end.

Definition resolve_tstep (h : heap) (ts : htstep) : tstep := (fst ts, resolve h (snd ts)).

Definition resolve_family (h : heap) (fam : hfamily) : family :=
  map (fun p : Z * list htstep => (fst p, map (resolve_tstep h) (snd p))) fam.

(** every window of the step points into one of the first [n] arrays *)
Definition sl_in (n : nat) (s : option slice) : bool :=
  match s with None => true | Some s => Nat.ltb (sl_arr s) n end.

Fixpoint wf_step (n : nat) (s : hstep) : bool :=
  match s with
  | HStatic sl => sl_in n sl
  | HIf _ t e =>
      (match t with Some s' => wf_step n s' | None => true end) &&
      (match e with Some s' => wf_step n s' | None => true end)
  | HMerge ss => forallb (fun o => match o with Some s' => wf_step n s' | None => true end) ss
  | HCustom _ _ sl => sl_in n sl
  | _ => true
  end.

Definition wf_family (n : nat) (fam : hfamily) : bool :=
  forallb (fun p : Z * list htstep => forallb (fun ts : htstep => wf_step n (snd ts)) (snd p)) fam.

(** * Go's slice operations *)

Fixpoint upd {A} (l : list A) (i : nat) (v : A) : list A :=
  match l, i with
  | [], _ => []
  | _ :: t, O => v :: t
  | x :: t, S i' => x :: upd t i' v
  end.

Definition write_at (l : list action) (pos : nat) (xs : list action) : list action :=
  firstn pos l ++ xs ++ skipn (pos + length xs) l.

(** a composite literal [types.Actions{...}]: new array, cap = len *)
Definition alloc (h : heap) (xs : list action) : heap * option slice :=
  (h ++ [xs], Some (mkSl (length h) 0 (length xs) (length xs))).

Section Grow.
(** capacity chosen by the runtime when [append] has to reallocate
    (old capacity, needed length); at least the needed length *)
Variable grow : nat -> nat -> nat.

Definition newcap (old need : nat) : nat := Nat.max need (grow old need).

(** [append(s, xs...)]: in place when the capacity suffices — this WRITES the
    backing array of [s] behind its length — otherwise into a new array. *)
Definition append_h (h : heap) (s : option slice) (xs : list action) : heap * option slice :=
  match xs with
  | [] => (h, s)
  | _ :: _ =>
      match s with
      | None => (h ++ [xs], Some (mkSl (length h) 0 (length xs) (newcap 0 (length xs))))
      | Some s =>
          if Nat.leb (sl_len s + length xs) (sl_cap s) then
            (upd h (sl_arr s) (write_at (nth (sl_arr s) h []) (sl_off s + sl_len s) xs),
             Some (mkSl (sl_arr s) (sl_off s) (sl_len s + length xs) (sl_cap s)))
          else
            (h ++ [read_sl h s ++ xs],
             Some (mkSl (length h) 0 (sl_len s + length xs) (newcap (sl_cap s) (sl_len s + length xs))))
      end
  end.

(** the loop of [MergeSteps.Actions]:
    [for _, step := range s { result = append(result, step.Actions(ctx, state)...) }] *)
Section MergeLoop.
Variable act : hstep -> heap -> outcome (option slice * heap).
Fixpoint merge_loop (l : list (option hstep)) (acc : option slice) (h : heap)
  : outcome (option slice * heap) :=
  match l with
  | [] => Ok (acc, h)
  | None :: _ => Panic                                  (* nil interface method call *)
  | Some s' :: t =>
      match act s' h with
      | Ok (sl, h1) =>
          let '(h2, acc') := append_h h1 acc (read h1 sl) in
          merge_loop t acc' h2
      | o => o
      end
  end.
End MergeLoop.

(** [Step.Actions(ctx, state)]: the slice returned and the heap after the call *)
Fixpoint actions_h (s : hstep) (c : core) (h : heap) : outcome (option slice * heap) :=
  match s with
  | HStatic sl => Ok (sl, h)                            (* the step's own slice *)
  | HIf cd t e =>
      match eval_cond cd c with
      | Ok true => match t with None => Ok (None, h) | Some s' => actions_h s' c h end
      | Ok false => match e with None => Ok (None, h) | Some s' => actions_h s' c h end
      | _ => Panic
      end
  | HMerge ss => merge_loop (fun s' h' => actions_h s' c h') ss None h      (* [var result types.Actions] *)
  | HSetFlow g => let '(h', sl) := alloc h [ASetFlow g] in Ok (sl, h')
  | HSetActor a => let '(h', sl) := alloc h [ASetActor a] in Ok (sl, h')
  | HPanic => let '(h', sl) := alloc h [APanic] in Ok (sl, h')
  | HInitTPM wl =>
      (* a literal [Actions{TPMInit}] onto which the (equally private) list of
         LogInit is appended: every array involved is allocated by the call
         itself and never handed to anybody else, so the call is modelled as
         ONE allocation of the final list *)
      let '(h', sl) :=
        alloc h (ATPMInit ::
                 (if wl then
                    match c_tpm c with
                    | None => [APanic]
                    | Some _ => [ATPMLogAdd; ATPMLogAdd]
                    end
                  else [])) in
      Ok (sl, h')
  | HCustom _ p sl => if p then Panic else Ok (sl, h)
  | HSetFlowFunc id fn => let '(h', sl) := alloc h [ASetFlowFunc id fn] in Ok (sl, h')
  | HLogInit =>
      (* a literal, or a list appended from nil: memory of the call itself *)
      let '(h', sl) :=
        alloc h (match c_tpm c with
                 | None => [APanic]
                 | Some _ => [ATPMLogAdd; ATPMLogAdd]
                 end) in
      Ok (sl, h')
  | HNil => Panic
  end.

(** * The interpreter with slices in its log *)

Record hentry := mkHE {
  he_sid : Z;
  he_actions : option slice;     (* StepResult.Actions: the slice the step returned *)
  he_issues : list icoord;
  he_measured : list Z;
  he_actor : option Z;
  he_code : option Z
}.

Definition read_entry (h : heap) (e : hentry) : entry :=
  mkEntry (he_sid e) (read h (he_actions e)) (he_issues e) (he_measured e) (he_actor e) (he_code e).

Fixpoint hlookup (fam : hfamily) (g : Z) : option (list htstep) :=
  match fam with
  | [] => None
  | (n, steps) :: rest => if n =? g then Some steps else hlookup rest g
  end.

(** [stateNextStep].  The [range] loop reads the elements of the returned
    slice while the actions are applied; no action of the embedding touches
    an action array, so it sees [read h1 sl]. *)
Definition state_next_step_h (fam : hfamily) (st : mstate) (h : heap)
  : outcome (mstate * heap * option (Z * option slice * list icoord * option Z)) :=
  match hlookup fam (ms_flow st) with
  | None => Ok (st, h, None)
  | Some steps =>
      let st1 := mkM (ms_flow st) (wrap64 (ms_step st + 1)) (ms_act st) (ms_core st) in
      if ms_step st1 >=? Z.of_nat (length steps) then Ok (st1, h, None)
      else
        match nth_error steps (Z.to_nat (ms_step st1)) with
        | None => Panic
        | Some (sid, body) =>
            let '(sl, h1, iss0) :=
              match actions_h body (ms_core st1) h with
              | Ok (sl, h1) => (sl, h1, [])
              | _ => (None, h, [ICActions])
              end in
            let '(st2, iss1) := loop_actions (read h1 sl) 0 st1 iss0 in
            let '(code, iss2) := actor_part (ms_core st2) in
            Ok (st2, h1, Some (sid, sl, iss1 ++ iss2, code))
        end
  end.

Definition next_step_h (fam : hfamily) (st : mstate) (h : heap) (log : list hentry)
  : outcome (mstate * heap * list hentry * bool) :=
  let old := c_measured (ms_core st) in
  match state_next_step_h fam st h with
  | Ok (st', h', None) => Ok (st', h', log, false)
  | Ok (st', h', Some (sid, sl, iss, code)) =>
      let new := c_measured (ms_core st') in
      let md := if Nat.ltb (length old) (length new) then skipn (length old) new else [] in
      Ok (st', h', log ++ [mkHE sid sl iss md (c_actor (ms_core st')) code], true)
  | Err e => Err e
  | Panic => Panic
  | OutOfFuel => OutOfFuel
  end.

Fixpoint run_h (fuel : nat) (fam : hfamily) (st : mstate) (h : heap) (log : list hentry)
  : outcome (mstate * heap * list hentry * bool) :=
  match fuel with
  | O => Ok (st, h, log, false)
  | S f =>
      match next_step_h fam st h log with
      | Ok (st', h', log', true) => run_h f fam st' h' log'
      | Ok (st', h', log', false) => Ok (st', h', log', true)
      | o => o
      end
  end.

End Grow.

(** the growth policy used when the model is executed: exact fit.  (The
    capacities of arrays allocated by the interpreter are not observed; the
    theorems hold for every policy.) *)
Definition grow_exact (old need : nat) : nat := need.
