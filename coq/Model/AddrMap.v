(** C14 — address maps of the suite and the bookkeeping of the firmware walker.

    Faithful executable model of

    - pkg/bootflow/systemartifacts/biosimage/phys_mem_mapper.go
        PhysMemMapper.Resolve / ResolveFullImageOffset / Unresolve /
        UnresolveFullImageOffset / ResolveBIOSRegionOffset / UnresolveBIOSRegionOffset
    - pkg/uefi/uefi.go                UEFI.PhysAddrToOffset / OffsetToPhysAddr
    - pkg/uefi/consts/calculate.go    CalculatePhysAddrFromTailOffset /
                                      CalculateTailOffsetFromPhysAddr / CalculateOffsetFromPhysAddr
    - pkg/tools/ifd.go                CalcImageOffset (three layouts)
    - pkg/tpmeventlog/parse_event_data.go   isPhysAddr
    - pkg/uefi/ffs/node_get_by.go     NodeVisitor.Visit (name/visit-count assignment of offsets,
                                      suppression inside processed sections, container fallback,
                                      isSkipping) over an abstract node tree, with the rows of
                                      fiano's table visitor (NameToRangesMap) as an input
    - pkg/bootflow/datasources/volume_of.go   the volume pick of VolumeOf for one range (fixed code).
    - pkg/bootflow/steps/intelsteps/measure_pcr0_data.go   MeasurePCR0DATA.Actions: where the
                                      IBB digest of each measured algorithm is, given the shape of
                                      the BPM's digest list (the per-algorithm search).

    All Go arithmetic here is uint64: every [+]/[-] is followed by [wrap64]. *)
From CSS Require Import Lib.Base.

Definition BASE : Z := 4294967296.                 (* consts.BasePhysAddr = PhysAddrBase = 1<<32 *)
Definition MAXU64 : Z := 18446744073709551615.     (* math.MaxUint64: "offset unknown" *)

(** * One-line conversions *)

(** [Offset: r.Offset - 0x100000000 + artifact.Size()] *)
Definition pmm_resolve (size off : Z) : Z := wrap64 (wrap64 (off - BASE) + size).
(** [Offset: r.Offset + 0x100000000 - artifact.Size()] *)
Definition pmm_unresolve (size off : Z) : Z := wrap64 (wrap64 (off + BASE) - size).
(** [Offset: r.Offset + biosRegion.Length - 0x100000000] *)
Definition pmm_resolve_bios (blen off : Z) : Z := wrap64 (wrap64 (off + blen) - BASE).
(** [Offset: r.Offset - biosRegion.Length + 0x100000000] *)
Definition pmm_unresolve_bios (blen off : Z) : Z := wrap64 (wrap64 (off - blen) + BASE).

(** [startAddr := uint64(consts.BasePhysAddr - len(image)); return physAddr - startAddr] *)
Definition uefi_phys_to_offset (len phys : Z) : Z := wrap64 (phys - wrap64 (BASE - len)).
(** [return offset + startAddr] *)
Definition uefi_offset_to_phys (len off : Z) : Z := wrap64 (off + wrap64 (BASE - len)).

Definition calc_phys_from_tail (off : Z) : Z := wrap64 (BASE - off).
Definition calc_tail_from_phys (phys : Z) : Z := wrap64 (BASE - phys).
(** [startAddr := BasePhysAddr - imageSize; return physAddr - startAddr] *)
Definition calc_offset_from_phys (phys size : Z) : Z := wrap64 (phys - wrap64 (BASE - size)).

(** [addr >= (PhysAddrBase-imageSize) && addr < PhysAddrBase] *)
Definition is_phys_addr (addr size : Z) : bool :=
  (wrap64 (BASE - size) <=? addr) && (addr <? BASE).

(** * Range lists (PhysMemMapper works on [pkgbytes.Ranges]) *)

Definition range : Type := (Z * Z)%type.          (* (Offset, Length) *)
Definition map_ranges (f : Z -> Z) (rs : list range) : list range :=
  map (fun r => (f (fst r), snd r)) rs.

(** Resolve / Unresolve never return an error. *)
Definition pmm_resolve_ranges (size : Z) (rs : list range) : outcome (list range) :=
  Ok (map_ranges (pmm_resolve size) rs).
Definition pmm_unresolve_ranges (size : Z) (rs : list range) : outcome (list range) :=
  Ok (map_ranges (pmm_unresolve size) rs).
(** The BIOS-region variants fail unless the artifact is a parseable BIOSImage with
    exactly one BIOS region ([bios = Some length]). *)
Definition pmm_resolve_bios_ranges (bios : option Z) (rs : list range) : outcome (list range) :=
  match bios with
  | Some blen => Ok (map_ranges (pmm_resolve_bios blen) rs)
  | None => Err 1
  end.
Definition pmm_unresolve_bios_ranges (bios : option Z) (rs : list range) : outcome (list range) :=
  match bios with
  | Some blen => Ok (map_ranges (pmm_unresolve_bios blen) rs)
  | None => Err 1
  end.

(** * tools.CalcImageOffset *)

(** What the image looks like to the three probes of CalcImageOffset, in the order
    in which the code tries them. [off], [size] are the uint32 values returned by
    GetRegion / getCorebootRegion. *)
Inductive layout : Type :=
| LFullFlash (off size : Z)     (* flash descriptor with a valid BIOS region *)
| LCoreboot (off size : Z)      (* no descriptor; FMAP with a COREBOOT area *)
| LBiosOnly                     (* neither; the bytes parse as a BIOS region *)
| LNone.                        (* nothing matches *)

(** [uint64(off+size) - consts.BasePhysAddr + addr]: the sum is taken in uint32. *)
Definition calc_region_offset (off size addr : Z) : Z :=
  wrap64 (wrap64 (wrap32 (off + size) - BASE) + addr).

(** Returns the value and whether an error was returned with it
    ([math.MaxUint64, err] in the last case). [imglen] = len(image). *)
Definition calc_image_offset (l : layout) (imglen addr : Z) : outcome Z :=
  match l with
  | LFullFlash off size => Ok (calc_region_offset off size addr)
  | LCoreboot off size => Ok (calc_region_offset off size addr)
  | LBiosOnly => Ok (wrap64 (wrap64 (imglen - BASE) + addr))
                 (* [uint64(len(image)) - consts.BasePhysAddr + addr] (fix 98fb605): the whole
                    image is the region, i.e. [calc_region_offset 0 imglen addr] for images
                    below 4 GiB *)
  | LNone => Err 1
  end.

(** * Firmware walker (ffs.NodeVisitor) over an abstract node tree *)

(** [tname]: 0 = the walker derives no name for this node (sections, paddings, zero GUID ...),
    otherwise an identifier of the name string (GUID text or "node/BIOS").
    [tproc]: the node is a GUID-defined section whose header has PROCESSING_REQUIRED.
    [tstop]: the callback answered "do not continue" at this node.
    [toff]: where the node's bytes really are in the image (used by theorems only).
    [tlen]: len(Buf()). *)
Inductive tree : Type :=
| T (tname : Z) (tproc : bool) (tstop : bool) (toff : Z) (tlen : Z) (kids : list tree).

Definition t_name (t : tree) := match t with T n _ _ _ _ _ => n end.
Definition t_proc (t : tree) := match t with T _ p _ _ _ _ => p end.
Definition t_stop (t : tree) := match t with T _ _ s _ _ _ => s end.
Definition t_off (t : tree) := match t with T _ _ _ o _ _ => o end.
Definition t_len (t : tree) := match t with T _ _ _ _ l _ => l end.
Definition t_kids (t : tree) := match t with T _ _ _ _ _ k => k end.

(** rangeMap / countMap as association lists keyed by the name identifier. *)
Definition rangemap : Type := list (Z * list range).
Definition countmap : Type := list (Z * nat).

Fixpoint rm_get (rm : rangemap) (n : Z) : list range :=
  match rm with
  | [] => []
  | (k, v) :: t => if k =? n then v else rm_get t n
  end.
Fixpoint cm_get (cm : countmap) (n : Z) : nat :=
  match cm with
  | [] => O
  | (k, v) :: t => if k =? n then v else cm_get t n
  end.
Fixpoint cm_incr (cm : countmap) (n : Z) : countmap :=
  match cm with
  | [] => [(n, 1%nat)]
  | (k, v) :: t => if k =? n then (k, S v) :: t else (k, v) :: cm_incr t n
  end.

(** Children are visited left to right, threading the countMap. *)
Definition fold_kids (f : tree -> countmap -> outcome (list range * countmap))
  : list tree -> countmap -> outcome (list range * countmap) :=
  fix go (ks : list tree) (cm : countmap) : outcome (list range * countmap) :=
    match ks with
    | [] => Ok ([], cm)
    | k :: ks' =>
        match f k cm with
        | Ok (r1, cm2) =>
            match go ks' cm2 with
            | Ok (r2, cm3) => Ok (r1 ++ r2, cm3)
            | Err c => Err c | Panic => Panic | OutOfFuel => OutOfFuel
            end
        | Err c => Err c | Panic => Panic | OutOfFuel => OutOfFuel
        end
    end.

(** Offset by name and visit count. [Panic]: [v.rangeMap[name][count]] out of range. *)
Definition lookup (rm : rangemap) (name : Z) (proc : bool) (cm : countmap) : outcome (Z * countmap) :=
  if name =? 0 then Ok (MAXU64, cm)
  else if proc then Ok (MAXU64, cm_incr cm name)
  else match nth_error (rm_get rm name) (cm_get cm name) with
       | Some r => Ok (fst r, cm_incr cm name)
       | None => Panic
       end.

(** The range handed to the callback: the looked-up offset, or the container's range. *)
Definition reported_range (fb : bool) (cont : option range) (off len : Z) : range :=
  match cont with
  | Some c => if (off =? MAXU64) && fb then c else (off, len)
  | None => (off, len)
  end.

Definition next_cont (proc : bool) (rng : range) (cont : option range) : option range :=
  if negb proc && negb (fst rng =? MAXU64) then Some rng else cont.

(** One [Visit]: returns the reported ranges (callback invocations, in order) of the
    subtree and the new countMap. *)
Fixpoint visit (rm : rangemap) (fb : bool) (t : tree)
         (skipping proc : bool) (cont : option range) (cm : countmap)
  : outcome (list range * countmap) :=
  match t with
  | T name procsec stop _ len kids =>
      match lookup rm name proc cm with
      | Ok (off, cm1) =>
          let rng := reported_range fb cont off len in
          match fold_kids (fun k cm' => visit rm fb k (skipping || stop) (proc || procsec)
                                          (next_cont proc rng cont) cm') kids cm1 with
          | Ok (rs, cm') => Ok ((if skipping then [] else [rng]) ++ rs, cm')
          | Err c => Err c | Panic => Panic | OutOfFuel => OutOfFuel
          end
      | Err c => Err c | Panic => Panic | OutOfFuel => OutOfFuel
      end
  end.

(** [NodeVisitor.Run]: fresh countMap, nothing processed, no container. *)
Definition walk (rm : rangemap) (fb : bool) (t : tree) : outcome (list range) :=
  match visit rm fb t false false None [] with
  | Ok (rs, _) => Ok rs
  | Err c => Err c | Panic => Panic | OutOfFuel => OutOfFuel
  end.

(** * VolumeOf, one range *)

(** [pkgbytes.Range.Intersect] (uint64 ends). *)
Definition intersect (r c : range) : bool :=
  if (snd r =? 0) || (snd c =? 0) then false
  else
    let e0 := wrap64 (fst r + snd r) in
    let e1 := wrap64 (fst c + snd c) in
    negb (e0 <=? fst c) && negb (e1 <=? fst r).

(** [nodes]: what the walker reported (no fallback), with "is a FirmwareVolume".
    GetByRange keeps the nodes whose reported range intersects [r]; VolumeOf takes the
    first of them that has a known offset and is a volume. *)
Fixpoint volume_pick (nodes : list (bool * range)) (r : range) : option range :=
  match nodes with
  | [] => None
  | (isfv, nr) :: t =>
      if intersect nr r && negb (fst nr =? MAXU64) && isfv then Some nr
      else volume_pick t r
  end.

(** VolumeOf(MemRanges{r}) for one resolved range: the volume, unresolved again. *)
Definition volume_of_one (size : Z) (nodes : list (bool * range)) (r : range) : outcome (list range) :=
  match volume_pick nodes r with
  | Some v => Ok [(pmm_unresolve size (fst v), snd v)]
  | None => Err 1
  end.

(** * PCR0_DATA: the reference to the IBB digest of one hash algorithm *)

(** The BPM's IBB digest list as the code sees it: per entry the algorithm identifier and
    [len(HashBuffer)]. On flash an entry is [HashAlg(2) Size(2) HashBuffer(Size)]:
    [TotalSize() = 4 + len], and the buffer starts [HashBufferOffset() + 2 = 4] bytes into
    the entry. *)
Definition digest_shape : Type := list (Z * Z).

(** [for idx := range digests { if digests[idx].HashAlg == hashAlgo {...; break};
     offsetToCurrentDigest += digests[idx].TotalSize() }] with [acc] the distance of the
    current entry from the first one. Result: (distance of the hash buffer from the first
    entry, length), [None] when no entry has the algorithm ("found" stays false). *)
Fixpoint digest_find (ds : digest_shape) (acc : Z) (alg : Z) : option range :=
  match ds with
  | [] => None
  | (a, l) :: t => if a =? alg then Some (acc + 4, l) else digest_find t (acc + 4 + l) alg
  end.

Definition ALG_SHA1 : Z := 4.
Definition ALG_SHA256 : Z := 11.

(** [first] = [bpmAddr + SEOffset() + SE[0].DigestListOffset() + ListOffset() + 2], the physical
    address of the first list entry (uint64). The search starts there FOR EVERY algorithm
    ([offsetToCurrentDigest := offsetToTheFirstDigest] inside the loop over the algorithms).
    One element per algorithm, in the order the code measures them: the reference's range, or
    [None] when a Panic action is emitted instead of the measurement. *)
Definition pcr0_digest_ref (first : Z) (ds : digest_shape) (alg : Z) : option range :=
  match digest_find ds 0 alg with
  | Some (rel, l) => Some (wrap64 (first + rel), l)
  | None => None
  end.

Definition pcr0_digest_refs (first : Z) (ds : digest_shape) : list (option range) :=
  map (pcr0_digest_ref first ds) [ALG_SHA1; ALG_SHA256].

(** * The callers' memory: mappers must not touch their arguments

    Every PhysMemMapper entry point takes [ranges ...pkgbytes.Range]: when the caller spreads a
    slice ([m.Unresolve(img, offsets...)]) the callee works on the CALLER's backing array, spare
    capacity included. The code as it is only reads it and builds its answer in memory of its
    own ([var result] / [make] + [append]). The model below makes that visible: a heap of
    arrays; a call reads a slice [a[lo:lo+n]] of one of them and allocates its answer as a NEW
    array at the end of the heap (so that later calls can be given earlier answers, and the
    harness can re-read everything after the session). No call changes an existing array.
    [MWrite] is the caller overwriting an element of an array (its own list or an answer it
    was given) between calls. *)

Definition heap : Type := list (list range).

(** which: 0 Resolve, 1 ResolveFullImageOffset, 2 Unresolve, 3 UnresolveFullImageOffset,
    4 ResolveBIOSRegionOffset, 5 UnresolveBIOSRegionOffset *)
Definition pmm_apply (which size : Z) (bios : option Z) (rs : list range) : outcome (list range) :=
  if (which =? 0) || (which =? 1) then pmm_resolve_ranges size rs
  else if (which =? 2) || (which =? 3) then pmm_unresolve_ranges size rs
  else if which =? 4 then pmm_resolve_bios_ranges bios rs
  else pmm_unresolve_bios_ranges bios rs.

Definition heap_slice (h : heap) (a lo n : nat) : list range :=
  firstn n (skipn lo (nth a h [])).

Fixpoint set_nth {A} (l : list A) (i : nat) (x : A) : list A :=
  match l, i with
  | [], _ => []
  | _ :: t, O => x :: t
  | y :: t, S i' => y :: set_nth t i' x
  end.

Definition heap_write (h : heap) (a i : nat) (r : range) : heap :=
  match nth_error h a with
  | Some arr => set_nth h a (set_nth arr i r)
  | None => h
  end.

Inductive mop : Type :=
| MCall (which size : Z) (bios : option Z) (a lo n : nat)
| MWrite (a i : nat) (r : range).

Definition answer_array (res : outcome (list range)) : list range :=
  match res with Ok out => out | _ => [] end.

(** One step: what the call returned (None for a write) and the heap afterwards. *)
Definition mop_step (h : heap) (o : mop) : option (outcome (list range)) * heap :=
  match o with
  | MCall which size bios a lo n =>
      let res := pmm_apply which size bios (heap_slice h a lo n) in
      (Some res, h ++ [answer_array res])
  | MWrite a i r => (None, heap_write h a i r)
  end.

Fixpoint msession (h : heap) (ops : list mop) : list (option (outcome (list range))) * heap :=
  match ops with
  | [] => ([], h)
  | o :: tl =>
      let (r, h1) := mop_step h o in
      let (rs, h2) := msession h1 tl in
      (r :: rs, h2)
  end.

(** * One NodeVisitor object used for several Runs

    [rangeMap] and [countMap] are fields of the visitor; [Run] assigns both before the
    traversal ([v.countMap = map[string]uint{}], [v.rangeMap = node.NameToRangesMap()] for the
    node given to THIS Run, [node.AddOffset] included in the rows). The other three private
    fields ([isSkipping], [isProcessedSection], [containerRange]) are set and restored by
    [defer]s on every exit path of [Visit], so they are parameters of [visit] rather than state
    that survives a Run. [rows] = what NameToRangesMap returns for the tree of this Run. *)

Record vstate : Type := mkV { vs_rm : rangemap; vs_cm : countmap }.

Definition v_fresh : vstate := mkV [] [].

Definition run_v (st : vstate) (rows : rangemap) (fb : bool) (t : tree) : outcome (list range) * vstate :=
  let st1 := mkV (vs_rm st) [] in               (* v.countMap = map[string]uint{} *)
  let st2 := mkV rows (vs_cm st1) in            (* v.rangeMap = node.NameToRangesMap() *)
  match visit (vs_rm st2) fb t false false None (vs_cm st2) with
  | Ok (rs, cm) => (Ok rs, mkV (vs_rm st2) cm)
  (* after a panic / an error the counters are somewhere in between; nothing can observe them:
     the next Run assigns both maps before it reads them *)
  | Err c => (Err c, st2) | Panic => (Panic, st2) | OutOfFuel => (OutOfFuel, st2)
  end.

Definition vrun : Type := (tree * rangemap * bool)%type.

Fixpoint vsession (st : vstate) (runs : list vrun) : list (outcome (list range)) :=
  match runs with
  | [] => []
  | (t, rows, fb) :: tl =>
      let (o, st') := run_v st rows fb t in o :: vsession st' tl
  end.
