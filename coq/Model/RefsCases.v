(** Case language of the C11 correspondence check.  The Go harness
    (harness/cmd/c11) writes [coq/gen/Cases_C11_*.v] with values of [case] holding
    the inputs it gave to the implementation AND what the implementation
    returned; [check] re-runs the model.  Where the implementation uses the
    unstable sort.Slice over references the case carries the order the sort
    chose ([perm], source indices); the model checks that it is an admissible
    order (a permutation, sorted w.r.t. the model's comparator) and then
    compares the raw result lists. *)
From CSS Require Import Lib.Base Lib.Cases Model.Ranges Model.Refs.

(** projection of a reference: artifact identity, mapper, ranges *)
Definition robs : Type := (Z * mapper * list range)%type.

Definition A := mkArt.
Definition R := mkRef.
Definition r_ := mkR.

Inductive case : Type :=
| CRMerge (l out : list range)                                   (* Ranges.SortAndMerge *)
| CRExcl (r : range) (tes out : list range)                      (* Range.Exclude *)
| CRInter (r c : range) (b : bool)                               (* Range.Intersect *)
| CReadAt (raw : bool) (b p : list Z) (off : Z) (res : obs (Z * list Z * Z))
| CSortMerge (s : list ref) (perm : list nat) (res : obs (list robs))
| CExclude (s exc : list ref) (ps pe : list nat) (res : obs (list robs))
| CRefBytes (r : ref) (res : obs (list Z))                       (* Reference.RawBytes *)
| CRefsBytes (s : list ref) (res : obs (list Z))                 (* References.RawBytes *)
| CResolve (s : list ref) (out : list robs) (err : bool)         (* References.Resolve *)
| CByArt (s : list ref) (a : art) (out : list robs)              (* References.BySystemArtifact *)
| CRanges (s : list ref) (out : list range).                     (* References.Ranges *)

Definition ranges_eqb := list_eqb range_eqb.
Definition robs_eqb (a b : robs) : bool :=
  let '(i, m, l) := a in let '(i', m', l') := b in
  (i =? i') && mapper_eqb m m' && ranges_eqb l l'.
Definition proj (r : ref) : robs := (aid (rart r), rmap r, rranges r).
Definition robs_list_eqb := list_eqb robs_eqb.
Definition map_out {A B} (f : A -> B) (o : outcome A) : outcome B := bind o (fun a => Ok (f a)).

Definition rd_eqb (a b : Z * list Z * Z) : bool :=
  let '(n, p, e) := a in let '(n', p', e') := b in (n =? n') && zlist_eqb p p' && (e =? e').

Definition check (c : case) : bool :=
  match c with
  | CRMerge l out => ranges_eqb out (ranges_sm l)
  | CRExcl r tes out => ranges_eqb out (range_exclude r tes)
  | CRInter r c b => Bool.eqb b (intersect r c)
  | CReadAt raw b p off res =>
      obs_match rd_eqb res
        (map_out (fun rd => (rd_n rd, rd_p rd, rd_err rd))
           (if raw then readat_raw b p off else readat_reader b p off))
  | CSortMerge s perm res => obs_match robs_list_eqb res (map_out (map proj) (refs_sm perm s))
  | CExclude s exc ps pe res => obs_match robs_list_eqb res (map_out (map proj) (refs_exclude ps pe s exc))
  | CRefBytes r res => obs_match zlist_eqb res (ref_rawbytes r)
  | CRefsBytes s res => obs_match zlist_eqb res (refs_rawbytes s)
  | CResolve s out err =>
      let '(s', e) := refs_resolve s in robs_list_eqb out (map proj s') && Bool.eqb err e
  | CByArt s a out => robs_list_eqb out (map proj (by_artifact s a))
  | CRanges s out => ranges_eqb out (refs_ranges s)
  end.

Definition mismatches := mismatches_by check.
