(** Case language of the C11 correspondence check.  The Go harness
    (harness/cmd/c11) writes [coq/gen/Cases_C11_*.v] with values of [case] holding
    the inputs it gave to the implementation AND what the implementation
    returned; [check] re-runs the model.  Where the implementation uses the
    unstable sort.Slice over references the case carries the order the sort
    chose ([perm], source indices); the model checks that it is an admissible
    order (a permutation, sorted w.r.t. the model's comparator) and then
    compares the raw result lists.

    [CProg] is a PROGRAM: harness-made memory (range arrays and arrays of
    Reference structs over their full capacity, variables = slices over them) and
    a sequence of operations of the reference algebra, each with what the
    implementation handed back and with everything that was different in memory
    afterwards (full contents of the harness-made arrays and the value of every
    variable, earlier results included).  The slice-level model Model/RefsHeap.v
    is run along; after every operation the whole observable memory must agree,
    and the result must be what the value-level model Model/Refs.v computes from
    the values before the operation.  The bytes handed out by RawBytes /
    Reference.RawBytes are kept as well (layer Model/RefsBytes.v): a step carries
    what is different in the byte results afterwards -- normally one new result
    and nothing else, whatever was called later; [BScribble] is the caller
    overwriting a result it was given.

    [CRegReads] is a sequence of ReadAt calls on ONE register-file object
    (TXTPublic / AMDRegisters, Model/RegFile.v); [CGRefBytes] / [CGRefsBytes] are
    Reference.RawBytes / References.RawBytes over artifacts of every kind,
    register files included. *)
From CSS Require Import Lib.Base Lib.Cases Model.Ranges Model.Refs Model.RefsHeap Model.RefsBytes Model.RegFile.

(** projection of a reference: artifact identity, mapper, ranges *)
Definition robs : Type := (Z * mapper * list range)%type.

Definition A := mkArt.
Definition R := mkRef.
Definition r_ := mkR.
Definition H := mkHdr.
Definition S_ := mkSl.
Definition Rg := mkReg.
Definition G := mkGRef.

(** observable memory: the structs of an array / of a References variable, the
    ranges of an array / of a Ranges variable *)
Inductive pitem := IRefs (l : list robs) | IRngs (l : list range).
(** what an operation of a program handed back (beside a new variable) *)
Inductive pres := XNone | XErr (e : bool) | XBytes (o : obs (list Z)) | XPanic.
(** operation, what it returned, the observable items that differ from the state
    before (index, new content; an index one past the end adds an item) *)
Definition pstep : Type := (bop * pres * list (nat * pitem) * list (nat * list Z))%type.
(** one ReadAt call: the buffer before, the offset, (n, the buffer afterwards, error class) *)
Definition rread : Type := (list Z * Z * obs (Z * list Z * Z))%type.

Inductive case : Type :=
| CRMerge (l out : list range)                                   (* Ranges.SortAndMerge *)
| CRExcl (r : range) (tes out : list range)                      (* Range.Exclude *)
| CRInter (r c : range) (b : bool)                               (* Range.Intersect *)
| CReadAt (raw : bool) (b p : list Z) (off : Z) (res : obs (Z * list Z * Z))
| CSortMerge (s : list ref) (perm : list nat) (res : obs (list robs))
| CExclude (s exc : list ref) (ps pe : list nat) (res : obs (list robs))
| CRefBytes (r : ref) (res : obs (list Z))                       (* Reference.RawBytes *)
| CRefsBytes (s : list ref) (res : obs (list Z))                 (* References.RawBytes *)
| CResolve (s : list ref) (out : list robs) (err : bool)         (* References.Resolve *)
| CByArt (s : list ref) (a : art) (out : list robs)              (* References.BySystemArtifact *)
| CRanges (s : list ref) (out : list range)                      (* References.Ranges *)
| CProg (rarrs : list (list range)) (farrs : list (list hdr)) (env : list value) (steps : list pstep)
| CRegReads (f : regfile) (reads : list rread)                   (* ReadAt, again and again on one object *)
| CGRefBytes (r : gref) (res : obs (list Z))                     (* Reference.RawBytes, any artifact *)
| CGRefsBytes (s : list gref) (res : obs (list Z)).              (* References.RawBytes, mixed lists *)

Definition ranges_eqb := list_eqb range_eqb.
Definition robs_eqb (a b : robs) : bool :=
  let '(i, m, l) := a in let '(i', m', l') := b in
  (i =? i') && mapper_eqb m m' && ranges_eqb l l'.
Definition proj (r : ref) : robs := (aid (rart r), rmap r, rranges r).
Definition robs_list_eqb := list_eqb robs_eqb.
Definition map_out {A B} (f : A -> B) (o : outcome A) : outcome B := bind o (fun a => Ok (f a)).

Definition rd_eqb (a b : Z * list Z * Z) : bool :=
  let '(n, p, e) := a in let '(n', p', e') := b in (n =? n') && zlist_eqb p p' && (e =? e').

(** *** programs *)

Definition pitem_eqb (a b : pitem) : bool :=
  match a, b with
  | IRefs x, IRefs y => robs_list_eqb x y
  | IRngs x, IRngs y => ranges_eqb x y
  | _, _ => false
  end.

Definition item_of (m : mem) (v : value) : pitem :=
  match v with
  | VRefs s => IRefs (map proj (lval m s))
  | VRngs s => IRngs (rd (m_r m) s)
  end.

(** the first [nf] arrays of structs and the first [nr] range arrays are the
    harness-made ones: observed over their full length; then the variables *)
Definition observe (nr nf : nat) (st : state) : list pitem :=
  let m := st_m st in
  map (fun a => IRefs (map (fun x => proj (hval (m_r m) x)) a)) (firstn nf (m_f m))
  ++ map IRngs (firstn nr (m_r m))
  ++ map (item_of m) (st_env st).

Fixpoint apply_delta {A} (prev : list A) (d : list (nat * A)) : list A :=
  match d with
  | [] => prev
  | (i, it) :: t => apply_delta (if (i <? length prev)%nat then set_nth i it prev else prev ++ [it]) t
  end.

Definition pres_match (x : pres) (r : res) : bool :=
  match x, r with
  | XNone, RNone => true
  | XErr e, RErr e' => Bool.eqb e e'
  | XBytes o, RBytes o' => obs_match zlist_eqb o o'
  | _, _ => false
  end.

(** value-level [References.SortAndMerge] with the stable order *)
Definition refs_sm_stable (s : list ref) : outcome (list ref) :=
  match s with
  | [] => Ok []
  | _ => if has_conflict s then Panic else Ok (refs_sm_sorted (sort_refs s))
  end.

Definition refs_eqb (a b : list ref) : bool := robs_list_eqb (map proj a) (map proj b).
Definition last_refs (st : state) : list ref :=
  match last (st_env st) (VRngs (mkSl 0 0 0)) with VRefs s => lval (st_m st) s | _ => [] end.
Definition var_refs (st : state) (v : nat) : list ref :=
  match get_refs st v with Some s => lval (st_m st) s | None => [] end.

(** the slice-level step against the value-level model: what the operation
    yields is the value-level function of the values before it *)
Definition vcheck (st : state) (o : op) (st' : state) (r : res) : bool :=
  match o with
  | OCopy v => refs_eqb (last_refs st') (var_refs st v)
  | OBy v a => refs_eqb (last_refs st') (by_artifact (var_refs st v) a)
  | ORanges v =>
      match last (st_env st') (VRefs (mkSl 0 0 0)) with
      | VRngs s => ranges_eqb (rd (m_r (st_m st')) s) (refs_ranges (var_refs st v))
      | _ => false
      end
  | OExclude v w =>
      match var_refs st v with
      | [] => refs_eqb (last_refs st') []
      | s =>
          match bind (refs_sm_stable s) (fun s0 => bind (refs_sm_stable (var_refs st w)) (fun s1 => excl_walk s0 s1)) with
          | Ok out => refs_eqb (last_refs st') out
          | _ => false
          end
      end
  | OSortMerge v =>
      match refs_sm_stable (var_refs st v) with
      | Ok out => refs_eqb (var_refs st' v) out
      | _ => false
      end
  | OResolve v =>
      let '(l, e) := refs_resolve (var_refs st v) in
      refs_eqb (var_refs st' v) l && (match r with RErr e' => Bool.eqb e e' | _ => false end)
  | ORawBytes v =>
      match r with
      | RBytes (Ok b) => match refs_rawbytes (var_refs st v) with Ok b' => zlist_eqb b b' | _ => false end
      | RBytes Panic => match refs_rawbytes (var_refs st v) with Panic => true | _ => false end
      | _ => false
      end
  | ORefBytes v i =>
      match nth_error (var_refs st v) i, r with
      | Some x, RBytes (Ok b) => match ref_rawbytes x with Ok b' => zlist_eqb b b' | _ => false end
      | Some x, RBytes Panic => match ref_rawbytes x with Panic => true | _ => false end
      | _, _ => false
      end
  | ORngSM v =>
      match get_rngs st v, get_rngs st' v with
      | Some s, Some s' => ranges_eqb (rd (m_r (st_m st')) s') (ranges_sm (rd (m_r (st_m st)) s))
      | _, _ => false
      end
  end.

(** [bprev]: the byte results as the harness saw them after the previous step *)
Fixpoint prog_check (nr nf : nat) (bs : bstate) (prev : list pitem) (bprev : list (list Z))
                    (steps : list pstep) : bool :=
  match steps with
  | [] => true
  | (o, x, d, bd) :: t =>
      match bstep bs o with
      | None => false
      | Some (bs', r) =>
          let now := apply_delta prev d in
          let bnow := apply_delta bprev bd in
          pres_match x r && list_eqb pitem_eqb now (observe nr nf (b_st bs'))
          && list_eqb zlist_eqb bnow (b_bytes bs')
          && (match o with BOp o' => vcheck (b_st bs) o' (b_st bs') r | BScribble _ _ => true end)
          && prog_check nr nf bs' now bnow t
      end
  end.

Definition read_check (f : regfile) (x : rread) : bool :=
  let '(p, off, res) := x in
  obs_match rd_eqb res (map_out (fun rd => (rd_n rd, rd_p rd, rd_err rd)) (rf_readat f p off)).

Definition check (c : case) : bool :=
  match c with
  | CRMerge l out => ranges_eqb out (ranges_sm l)
  | CRExcl r tes out => ranges_eqb out (range_exclude r tes)
  | CRInter r c b => Bool.eqb b (intersect r c)
  | CReadAt raw b p off res =>
      obs_match rd_eqb res
        (map_out (fun rd => (rd_n rd, rd_p rd, rd_err rd))
           (if raw then readat_raw b p off else readat_reader b p off))
  | CSortMerge s perm res => obs_match robs_list_eqb res (map_out (map proj) (refs_sm perm s))
  | CExclude s exc ps pe res => obs_match robs_list_eqb res (map_out (map proj) (refs_exclude ps pe s exc))
  | CRefBytes r res => obs_match zlist_eqb res (ref_rawbytes r)
  | CRefsBytes s res => obs_match zlist_eqb res (refs_rawbytes s)
  | CResolve s out err =>
      let '(s', e) := refs_resolve s in robs_list_eqb out (map proj s') && Bool.eqb err e
  | CByArt s a out => robs_list_eqb out (map proj (by_artifact s a))
  | CRanges s out => ranges_eqb out (refs_ranges s)
  | CProg rarrs farrs env steps =>
      let st := mkSt (mkMem rarrs farrs) env in
      prog_check (length rarrs) (length farrs) (mkB st []) (observe (length rarrs) (length farrs) st) [] steps
  | CRegReads f reads => forallb (read_check f) reads
  | CGRefBytes r res => obs_match zlist_eqb res (gref_rawbytes r)
  | CGRefsBytes s res => obs_match zlist_eqb res (grefs_rawbytes s)
  end.

Definition mismatches := mismatches_by check.
