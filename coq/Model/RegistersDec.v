(** Hand-written models of the parts of the register decoders that are LOGIC around the
    shift/mask accessors (which tools/go2coq regenerates from the source):

    1. [CalculateRegisterFields] (pkg/registers/field.go) as the exported function it is: ANY
       table, the "input fields should be sorted" panic, the empty table ([calc_go]);
    2. the second TXT decoder, pkg/tools/txt.go: [ParseTXTRegs] (a chain of reads that stops at
       the first one that fails and hands back what was decoded so far), [ReadACMStatus],
       [ReadACMPolicyStatusRaw], [ReadBootStatusRaw] — which bytes of the image every reported
       field is made of ([read_seq], [tools_fields]);
    3. [ReadMSRRegisters] (pkg/registers/msr.go): the loop over the table of supported MSRs, one
       [MSRReader.Read] per entry, failures collected ([read_msrs]);
    4. [Registers.Find] (pkg/registers/registers.go): first register with the ID ([find_reg]).

    The numbers in the tables below are re-read from the source on every run (constants tie,
    spec/consts.json: [slot_off], [layout_off], [layout_bits], [msr_addr], [type_id]). *)
From Coq Require Import NArith List String Bool.
From CSS Require Import Lib.SymBits Lib.RegTypes Lib.RegOblig Model.Registers.
Import ListNotations.
Open Scope N_scope.

(** * 1. [CalculateRegisterFields] on any table

    The loop of field.go with its panic: [last] is [lastBitOffset] (starts at 0), [total] is
    [fieldsTotalSize] (uint8).  [None] = the call panics ("input fields should be sorted by
    BitOffset"); what was appended before the panic is lost with it.  uint8 subtraction wraps
    ([mod 256]); [1 << BitSize] is computed in uint64 (0 from 64 bits on, so the mask is all
    ones); [registerValue >> fieldsTotalSize] is 0 from 64 on. *)
Fixpoint calc_go_aux (raw size total last : N) (l : list (string * N)) : option (list field) :=
  match l with
  | [] => Some []
  | (n, o) :: t =>
      if o <? last then None else
      let bsz := match t with
                 | [] => (size + 256 - o) mod 256
                 | (_, o') :: _ => (o' + 256 - o) mod 256
                 end in
      let mask := (N.shiftl 1 bsz mod 2^64 + 2^64 - 1) mod 2^64 in
      let v := N.land (N.shiftr raw total) mask in
      match calc_go_aux raw size ((total + bsz) mod 256) o t with
      | None => None
      | Some r => Some ((n, o, bsz, v) :: r)
      end
  end.
(** second component: the result is the nil slice ([len(fields) == 0]) *)
Definition calc_go (raw size : N) (l : list (string * N)) : option (list field * bool) :=
  match l with
  | [] => Some ([], true)
  | _ => match calc_go_aux raw size 0 0 l with Some r => Some (r, false) | None => None end
  end.

(** offsets never decrease (what the panic checks; the first entry is compared with 0) *)
Fixpoint offsets_sorted (last : N) (l : list (string * N)) : bool :=
  match l with
  | [] => true
  | (_, o) :: t => (last <=? o) && offsets_sorted o t
  end.

(** * 2. The second TXT decoder (pkg/tools/txt.go)

    One entry per [binary.Read]: slot name, offset, number of bytes.  [ParseTXTRegs] performs
    them in this order (the order of the statements of the function: TXT.STS, TXT.ERRORCODE and
    TXT.DPR through their helpers first, then TXT.ESTS ...; the four halves of TXT.DIDVID are
    read one after the other without a seek, so their offsets are consecutive; the key is read
    as four uint64) and returns at the FIRST read that fails, with that read's error. *)
Open Scope string_scope.
Definition parse_layout : list (string * nat * nat) := [
  ("Sts", 0, 8); ("ErrorCode", 48, 4); ("Dpr", 816, 4); ("Ests", 8, 1); ("BootStatus", 160, 8);
  ("FsbIf", 256, 4); ("Vid", 272, 2); ("Did", 274, 2); ("Rid", 276, 2); ("IDExt", 278, 2);
  ("QpiIf", 512, 4); ("SinitBase", 624, 4); ("SinitSize", 632, 4); ("MleJoin", 656, 4);
  ("HeapBase", 768, 4); ("HeapSize", 776, 4);
  ("PublicKey0", 1024, 8); ("PublicKey1", 1032, 8); ("PublicKey2", 1040, 8); ("PublicKey3", 1048, 8);
  ("E2Sts", 2288, 8)
]%nat.
(** the single-register readers of pkg/tools: one read each.  NB [ReadACMStatus] reads EIGHT
    bytes at 0x328 where pkg/registers reads the four bytes of the uint32 ACM_STATUS. *)
Definition acm_status_layout : list (string * nat * nat) := [("ACMStatus", 808, 8)]%nat.
Definition acm_policy_layout : list (string * nat * nat) := [("ACMPolicyStatus", 888, 8)]%nat.
Definition boot_status_layout : list (string * nat * nat) := [("BootStatusRaw", 160, 8)]%nat.
Close Scope string_scope.

(** the chain of reads: values read so far, and the read that stopped the chain (if any) *)
Fixpoint read_seq (layout : list (string * nat * nat)) (img : list N)
  : list (string * N) * option (string * read_err) :=
  match layout with
  | [] => ([], None)
  | (s, off, n) :: t =>
      match read_le img off n with
      | Some v => let r := read_seq t img in ((s, v) :: fst r, snd r)
      | None => ([], Some (s, read_err_of img off))
      end
  end.
Definition parse_txt (img : list N) := read_seq parse_layout img.

Fixpoint lookup (s : string) (l : list (string * N)) : option N :=
  match l with
  | [] => None
  | (k, v) :: t => if String.eqb s k then Some v else lookup s t
  end.

(** What the caller sees: the leaf fields of the returned struct, in a fixed order.  Each is
    made of one slot: the slot's raw value itself ([None]) or an accessor of the generated model
    applied to it ([Some name]: the body of [readTXTStatus] etc. as translated from the source
    in this run).  A slot that was not read (the chain stopped before it, or at it) leaves its
    fields at the zero value. *)
Open Scope string_scope.
Definition parse_fields : list (string * option string) := [
  ("Sts", Some "tools.readTXTStatus.SenterDone"); ("Sts", Some "tools.readTXTStatus.SexitDone");
  ("Sts", Some "tools.readTXTStatus.MemConfigLock"); ("Sts", Some "tools.readTXTStatus.PrivateOpen");
  ("Sts", Some "tools.readTXTStatus.Locality1Open"); ("Sts", Some "tools.readTXTStatus.Locality2Open");
  ("Ests", Some "tools.ParseTXTRegs.TxtReset");
  ("ErrorCode", Some "tools.readTXTErrorCode.ModuleType"); ("ErrorCode", Some "tools.readTXTErrorCode.ClassCode");
  ("ErrorCode", Some "tools.readTXTErrorCode.MajorErrorCode"); ("ErrorCode", Some "tools.readTXTErrorCode.SoftwareSource");
  ("ErrorCode", Some "tools.readTXTErrorCode.MinorErrorCode"); ("ErrorCode", Some "tools.readTXTErrorCode.Type1Reserved");
  ("ErrorCode", Some "tools.readTXTErrorCode.ProcessorSoftware"); ("ErrorCode", Some "tools.readTXTErrorCode.ValidInvalid");
  ("ErrorCode", None);
  ("BootStatus", None); ("FsbIf", None); ("Vid", None); ("Did", None); ("Rid", None); ("IDExt", None);
  ("QpiIf", None); ("SinitBase", None); ("SinitSize", None); ("MleJoin", None); ("HeapBase", None); ("HeapSize", None);
  ("Dpr", Some "tools.readDMAProtectedRange.Lock"); ("Dpr", Some "tools.readDMAProtectedRange.Size");
  ("Dpr", Some "tools.readDMAProtectedRange.Top");
  ("PublicKey0", None); ("PublicKey1", None); ("PublicKey2", None); ("PublicKey3", None);
  ("E2Sts", None)
].
Definition acm_status_fields : list (string * option string) := [
  ("ACMStatus", Some "tools.ReadACMStatus.Valid"); ("ACMStatus", Some "tools.ReadACMStatus.MinorErrorCode");
  ("ACMStatus", Some "tools.ReadACMStatus.ACMStarted"); ("ACMStatus", Some "tools.ReadACMStatus.MajorErrorCode");
  ("ACMStatus", Some "tools.ReadACMStatus.ClassCode"); ("ACMStatus", Some "tools.ReadACMStatus.ModuleType")
].
(** the decoders of pkg/tools by name: reads, reported fields *)
Definition tools_decoder (which : string) : option (list (string * nat * nat) * list (string * option string)) :=
  if String.eqb which "ParseTXTRegs" then Some (parse_layout, parse_fields)
  else if String.eqb which "ReadACMStatus" then Some (acm_status_layout, acm_status_fields)
  else if String.eqb which "ReadACMPolicyStatusRaw" then Some (acm_policy_layout, [("ACMPolicyStatus", None)])
  else if String.eqb which "ReadBootStatusRaw" then Some (boot_status_layout, [("BootStatusRaw", None)])
  else None.
Close Scope string_scope.

(** value of one reported field; [None]: the accessor is not in the generated model *)
Definition field_value (accs : list accessor) (vals : list (string * N)) (f : string * option string) : option N :=
  match lookup (fst f) vals with
  | None => Some 0
  | Some raw =>
      match snd f with
      | None => Some raw
      | Some a => match find_accessor a accs with Some acc => Some (got_at (a_val acc) raw) | None => None end
      end
  end.
Definition tools_fields (accs : list accessor) (fields : list (string * option string)) (vals : list (string * N))
  : list (option N) := map (field_value accs vals) fields.

(** ** Which fields of the two decoders are the same field

    (tools accessor, pkg/registers accessor, slot of the tools decoder, ID of the register):
    the fields that BOTH decoders decode out of a raw value.  Obligation [oblig_pair] (evaluated
    on the generated accessors in every run): the two accessors exist, the frozen specification
    gives them the SAME bit range, both pass [check] for it, and the range lies inside both raw
    widths. *)
Open Scope string_scope.
Definition decoder_pairs : list (string * string * string * string) := [
  ("tools.readTXTStatus.SenterDone", "registers.TXTStatus.SEnterDone", "Sts", "TXT.STS");
  ("tools.readTXTStatus.SexitDone", "registers.TXTStatus.SExitDone", "Sts", "TXT.STS");
  ("tools.readTXTStatus.MemConfigLock", "registers.TXTStatus.MemConfigLock", "Sts", "TXT.STS");
  ("tools.readTXTStatus.PrivateOpen", "registers.TXTStatus.PrivateOpen", "Sts", "TXT.STS");
  ("tools.readTXTStatus.Locality1Open", "registers.TXTStatus.Locality1Open", "Sts", "TXT.STS");
  ("tools.readTXTStatus.Locality2Open", "registers.TXTStatus.Locality2Open", "Sts", "TXT.STS");
  ("tools.ParseTXTRegs.TxtReset", "registers.TXTErrorStatus.Reset", "Ests", "TXT.ESTS");
  ("tools.readTXTErrorCode.ModuleType", "registers.TXTErrorCode.ModuleType", "ErrorCode", "TXT.ERRORCODE");
  ("tools.readTXTErrorCode.ClassCode", "registers.TXTErrorCode.ClassCode", "ErrorCode", "TXT.ERRORCODE");
  ("tools.readTXTErrorCode.MajorErrorCode", "registers.TXTErrorCode.MajorErrorCode", "ErrorCode", "TXT.ERRORCODE");
  ("tools.readTXTErrorCode.SoftwareSource", "registers.TXTErrorCode.SoftwareSource", "ErrorCode", "TXT.ERRORCODE");
  ("tools.readTXTErrorCode.MinorErrorCode", "registers.TXTErrorCode.MinorErrorCode", "ErrorCode", "TXT.ERRORCODE");
  ("tools.readTXTErrorCode.Type1Reserved", "registers.TXTErrorCode.Type1Reserved", "ErrorCode", "TXT.ERRORCODE");
  ("tools.readTXTErrorCode.ValidInvalid", "registers.TXTErrorCode.Valid", "ErrorCode", "TXT.ERRORCODE");
  ("tools.readDMAProtectedRange.Lock", "registers.TXTDMAProtectedRange.DMAProtectedRange.Lock", "Dpr", "TXT.DPR");
  ("tools.readDMAProtectedRange.Size", "registers.TXTDMAProtectedRange.DMAProtectedRange.Size", "Dpr", "TXT.DPR");
  ("tools.readDMAProtectedRange.Top", "registers.TXTDMAProtectedRange.DMAProtectedRange.Top", "Dpr", "TXT.DPR");
  ("tools.ReadACMStatus.ModuleType", "registers.ACMStatus.ModuleType", "ACMStatus", "ACM_STATUS");
  ("tools.ReadACMStatus.ClassCode", "registers.ACMStatus.ClassCode", "ACMStatus", "ACM_STATUS");
  ("tools.ReadACMStatus.MajorErrorCode", "registers.ACMStatus.MajorErrorCode", "ACMStatus", "ACM_STATUS");
  ("tools.ReadACMStatus.ACMStarted", "registers.ACMStatus.ACMStarted", "ACMStatus", "ACM_STATUS");
  ("tools.ReadACMStatus.MinorErrorCode", "registers.ACMStatus.MinorErrorCode", "ACMStatus", "ACM_STATUS");
  ("tools.ReadACMStatus.Valid", "registers.ACMStatus.Valid", "ACMStatus", "ACM_STATUS")
].
(** Fields the tools decoder reports RAW and pkg/registers reports through an accessor (or
    [Raw()]): (slot, ID of the register, byte offset of the slot inside the register,
    pkg/registers accessor that denotes the same bits). *)
Definition raw_pairs : list (string * string * nat * string) := [
  ("ErrorCode", "TXT.ERRORCODE", 0, "registers.TXTErrorCode.Raw");
  ("BootStatus", "TXT.SPAD", 0, "registers.TXTBootStatus.Raw");
  ("FsbIf", "TXT.VER.FSBIF", 0, "registers.TXTVerFSBIF.Raw");
  ("Vid", "TXT.DIDVID", 0, "registers.TXTDeviceID.VendorID");
  ("Did", "TXT.DIDVID", 2, "registers.TXTDeviceID.DeviceID");
  ("Rid", "TXT.DIDVID", 4, "registers.TXTDeviceID.RevisionID");
  ("IDExt", "TXT.DIDVID", 6, "registers.TXTDeviceID.ExtendedID");
  ("QpiIf", "TXT.VER.EMIF", 0, "registers.TXTVerEMIF.Raw");
  ("SinitBase", "TXT.SINIT.BASE", 0, "registers.TXTSInitBase.Raw");
  ("SinitSize", "TXT.SINIT.SIZE", 0, "registers.TXTSInitSize.Raw");
  ("MleJoin", "TXT.MLE.JOIN", 0, "registers.TXTMLEJoin.Raw");
  ("HeapBase", "TXT.HEAP.BASE", 0, "registers.TXTHeapBase.Raw");
  ("HeapSize", "TXT.HEAP.SIZE", 0, "registers.TXTHeapSize.Raw");
  ("ACMPolicyStatus", "ACM_POLICY_STATUS", 0, "registers.ACMPolicyStatus.Raw");
  ("BootStatusRaw", "TXT.SPAD", 0, "registers.TXTBootStatus.Raw")
]%nat.
(** the four quarters of the key (TXT.PUBLIC.KEY has no numeric accessor: bytes only) *)
Definition key_slots : list (string * nat) :=
  [("PublicKey0", 0); ("PublicKey1", 8); ("PublicKey2", 16); ("PublicKey3", 24)]%nat.
Close Scope string_scope.

Definition all_tools_slots : list (string * nat * nat) :=
  parse_layout ++ acm_status_layout ++ acm_policy_layout ++ boot_status_layout.

Fixpoint find_entry (s : string) (l : list (string * nat * nat)) : option (nat * nat) :=
  match l with
  | [] => None
  | (k, off, n) :: t => if String.eqb s k then Some (off, n) else find_entry s t
  end.

Definition spec_eqb (a b : spec) : bool :=
  match a, b with
  | SBits l w, SBits l' w' | SNonZero l w, SNonZero l' w' | SZero l w, SZero l' w' => N.eqb l l' && N.eqb w w'
  | SMux b1 s1 c1, SMux b2 s2 c2 => N.eqb b1 b2 && N.eqb s1 s2 && N.eqb c1 c2
  | SRaw, SRaw => true
  | _, _ => false
  end.
(** the slice a specification reads: [lo, lo+w) *)
Definition spec_slice (s : spec) : option (N * N) :=
  match s with
  | SBits lo w | SNonZero lo w | SZero lo w => Some (lo, w)
  | _ => None
  end.
Fixpoint find_spec (n : string) (l : list (string * N * aspec)) : option (N * spec) :=
  match l with
  | [] => None
  | (m, W, sp) :: t =>
      if String.eqb n m then match sp with Sp s => Some (W, s) | SpUnchecked => None end
      else find_spec n t
  end.

(** both accessors decode the same slice: same specification, both green, slice inside both
    widths; the slot and the register start at the same byte and the slice lies in the bytes
    both decoders read *)
Definition pair_ok (specs : list (string * N * aspec)) (accs : list accessor)
                   (p : string * string * string * string) : bool :=
  let '(ta, ra, slot, id) := p in
  match find_spec ta specs, find_spec ra specs, find_accessor ta accs, find_accessor ra accs,
        find_entry slot all_tools_slots, find_entry id txt_layout with
  | Some (Wt, st), Some (Wr, sr), Some at_, Some ar, Some (soff, sn), Some (roff, rn) =>
      spec_eqb st sr && N.eqb (a_width at_) Wt && N.eqb (a_width ar) Wr &&
      check Wt (a_val at_) st && check Wr (a_val ar) sr &&
      Nat.eqb soff roff && N.eqb Wt (8 * N.of_nat sn) && N.eqb Wr (8 * N.of_nat rn) &&
      match spec_slice st with
      | Some (lo, w) => (lo + w <=? N.min Wt Wr)
      | None => false
      end
  | _, _, _, _, _, _ => false
  end.
Definition oblig_pair specs accs (p : string * string * string * string) : result :=
  let '(ta, ra, _, _) := p in ((ta ++ "~" ++ ra)%string, pair_ok specs accs p, None).

(** a raw slot of the tools decoder and an accessor of pkg/registers denote the same bytes:
    the slot lies inside the register at byte [k], the accessor is specified (and green) as
    exactly the bits of those bytes *)
Definition raw_pair_ok (specs : list (string * N * aspec)) (accs : list accessor)
                       (p : string * string * nat * string) : bool :=
  let '(slot, id, k, ra) := p in
  match find_spec ra specs, find_accessor ra accs, find_entry slot all_tools_slots, find_entry id txt_layout with
  | Some (Wr, sr), Some ar, Some (soff, sn), Some (roff, rn) =>
      N.eqb (a_width ar) Wr && check Wr (a_val ar) sr && N.eqb Wr (8 * N.of_nat rn) &&
      Nat.eqb soff (roff + k) && Nat.leb (k + sn) rn &&
      match sr with
      | SBits lo w => N.eqb lo (8 * N.of_nat k) && N.eqb w (8 * N.of_nat sn)
      | SRaw => Nat.eqb k 0 && Nat.eqb sn rn
      | _ => false
      end
  | _, _, _, _ => false
  end.
Definition oblig_raw_pair specs accs (p : string * string * nat * string) : result :=
  let '(slot, _, _, ra) := p in ((slot ++ "~" ++ ra)%string, raw_pair_ok specs accs p, None).

(** * 3. [ReadMSRRegisters] (msr.go)

    The table [supportedMSRRegistersIDs]: register ID and the MSR number its reader asks the
    [MSRReader] for, in table order.  [rd]: the reader ([None] = it returns an error).  Every
    entry is tried, one [Read] each, whatever happened to the others. *)
Open Scope string_scope.
Definition msr_layout : list (string * N) := [
  ("BOOT_GUARD_PBEC", 313); ("BTG_SACM_INFO", 314); ("IA32_DEBUG_INTERFACE", 3200);
  ("IA32_FEATURE_CONTROL", 58); ("IA32_MTRRCAP", 254); ("IA32_PLATFORM_ID", 23);
  ("IA32_SMRR_PHYSBASE", 498); ("IA32_SMRR_PHYSMASK", 499)
].
Close Scope string_scope.
Fixpoint read_msrs_from (layout : list (string * N)) (rd : N -> option N)
  : list (string * N) * list string :=
  match layout with
  | [] => ([], [])
  | (id, a) :: t =>
      let r := read_msrs_from t rd in
      match rd a with
      | Some v => ((id, v) :: fst r, snd r)
      | None => (fst r, id :: snd r)
      end
  end.
Definition read_msrs := read_msrs_from msr_layout.
(** the MSR numbers asked for, in the order of the calls *)
Definition msr_trace (layout : list (string * N)) : list N := map snd layout.

(** * 4. [Registers.Find]: the first register of the collection with that ID *)
Fixpoint find_reg (id : string) (regs : list (string * N)) : option N :=
  match regs with
  | [] => None
  | (k, v) :: t => if String.eqb k id then Some v else find_reg id t
  end.
(** position of that register (what the harness observes on collections with repeated IDs) *)
Fixpoint find_pos (id : string) (ids : list string) : option nat :=
  match ids with
  | [] => None
  | k :: t => if String.eqb k id then Some O else option_map S (find_pos id t)
  end.

(** * Tables for the constants tie: Go type of each TXT register, lookups by name *)
Open Scope string_scope.
Definition txt_types : list (string * string) := [
  ("ACMPolicyStatus", "ACM_POLICY_STATUS"); ("ACMStatus", "ACM_STATUS"); ("TXTDMAProtectedRange", "TXT.DPR");
  ("TXTErrorCode", "TXT.ERRORCODE"); ("TXTPublicKey", "TXT.PUBLIC.KEY"); ("TXTStatus", "TXT.STS");
  ("TXTErrorStatus", "TXT.ESTS"); ("TXTBootStatus", "TXT.SPAD"); ("TXTVerFSBIF", "TXT.VER.FSBIF");
  ("TXTVerEMIF", "TXT.VER.EMIF"); ("TXTDeviceID", "TXT.DIDVID"); ("TXTSInitBase", "TXT.SINIT.BASE");
  ("TXTSInitSize", "TXT.SINIT.SIZE"); ("TXTMLEJoin", "TXT.MLE.JOIN"); ("TXTHeapBase", "TXT.HEAP.BASE");
  ("TXTHeapSize", "TXT.HEAP.SIZE")
].
Definition msr_types : list (string * string) := [
  ("BootGuardPBEC", "BOOT_GUARD_PBEC"); ("BTGSACMInfo", "BTG_SACM_INFO"); ("IA32DebugInterface", "IA32_DEBUG_INTERFACE");
  ("IA32FeatureControl", "IA32_FEATURE_CONTROL"); ("IA32MTRRCAP", "IA32_MTRRCAP"); ("IA32PlatformID", "IA32_PLATFORM_ID");
  ("IA32SMRRPhysBase", "IA32_SMRR_PHYSBASE"); ("IA32SMRRPhysMask", "IA32_SMRR_PHYSMASK")
].
Close Scope string_scope.
Fixpoint assoc_str (k : string) (l : list (string * string)) : string :=
  match l with
  | [] => EmptyString
  | (a, b) :: t => if String.eqb k a then b else assoc_str k t
  end.
(** ID of the register a Go type stands for (k-th entry of the table: the ORDER of
    [supportedTXTRegistersIDs] is part of [txt_layout], the types are listed in that order) *)
Definition type_id (ty : string) : string := assoc_str ty (txt_types ++ msr_types).
(** offset / size in bits of the register with that Go type; 99999 when the model has no entry *)
Definition layout_off (ty : string) : N :=
  match find_entry (type_id ty) txt_layout with Some (off, _) => N.of_nat off | None => 99999 end.
Definition layout_bits (ty : string) : N :=
  match find_entry (type_id ty) txt_layout with Some (_, n) => 8 * N.of_nat n | None => 99999 end.
Definition slot_off (s : string) : N :=
  match find_entry s all_tools_slots with Some (off, _) => N.of_nat off | None => 99999 end.
Definition msr_addr (ty : string) : N :=
  match lookup (type_id ty) msr_layout with Some a => a | None => 99999 end.
Fixpoint list_eqb_str (a b : list string) : bool :=
  match a, b with
  | [], [] => true
  | x :: a', y :: b' => String.eqb x y && list_eqb_str a' b'
  | _, _ => false
  end.
(** the tables list the types in the order of the layouts *)
Definition types_in_layout_order : bool :=
  list_eqb_str (map snd txt_types) (map (fun e => fst (fst e)) txt_layout) &&
  list_eqb_str (map snd msr_types) (map fst msr_layout).
