(** The test runner of pkg/test over FAILING HARDWARE (property C06, fault
    clause): Model/Runner.v treats a check as an oracle of outcomes; here a check
    is a program that makes hardware accesses, every access of a run is numbered
    (one counter for the whole run, as in the harness' fault injector), and the
    hardware answers the n-th access with data or with an error.

    - [fmode], [fails], [inject]: the fault patterns of the property's quantifier,
      "the k-th hardware call and all later ones fail" and "only the k-th call
      fails", over a healthy platform [base].
    - [prog]: a check function as the tree of its hardware accesses: [Ret o]
      returns (rc, testerror<>nil, internalerror<>nil); [Acc k] makes one
      fallible access and continues with [k None] when it failed and with
      [k (Some d)] when it returned [d].  Trees are well-founded: a check
      terminates and does not panic BY CONSTRUCTION in this model (that clause of
      the property is enumerated on the real checks by the harness, not proved).
    - [exec]: runs a program from call counter [c]; returns the outcome and, per
      access made, whether it failed.
    - [run_h], [run_list_h]: Test.Run / a caller's loop as in Model/Runner.v, with
      the call counter threaded through the checks ([progs id n] is the program
      of the n-th evaluation of test [id]: package caches make a second
      evaluation differ from the first).  Every evaluation is recorded with its
      window of calls ([h_from], one flag per access) in the ghost [htrace].
    - the disciplines a check can follow: [converts] (a failed access is turned
      into an internal error at once -- "checks convert hwapi errors into
      internal errors"), [fail_closed] (after a failed access no PASS is
      reachable), and what the harness judges on every observed evaluation,
      [swallowed] (PASS although an own access failed).

    The real checks are NOT modelled as programs.  The tie to the code is: the
    harness records, for every run of the fault matrix, the accesses made inside
    every evaluation, which of them the injector failed and what the check
    returned; the model re-executes the run with the straight-line programs of
    that shape ([lin]) under [inject] and must reproduce results, blames,
    evaluations, windows, flags and the total number of calls
    (Model/RunnerCases.v, [CFault]). *)
From CSS Require Import Lib.Base Model.Runner.

(** * fault patterns *)
Inductive fmode := FNone | FFromK (k : nat) | FOnlyK (k : nat).

(** does the n-th fallible call of the run (counted from 1) fail? *)
Definition fails (m : fmode) (n : nat) : bool :=
  match m with
  | FNone => false
  | FFromK k => Nat.leb k n
  | FOnlyK k => Nat.eqb n k
  end.

(** * evaluations with their windows of hardware calls *)
(** one evaluation of a check: as [event], plus its window of hardware calls:
    calls [h_from + 1 .. h_from + length h_flags] of the run *)
Record hev := mkHev { h_id : nat; h_dep : bool; h_from : nat; h_flags : list bool; h_out : outcome3 }.
Definition hev_ev (h : hev) : event := mkEv (h_id h) (h_dep h) (h_out h).

Record hstate := mkHS { hs : state; hcalls : nat; htrace : list hev }.

Definition set_depfailed_h (s : hstate) (id d : nat) : hstate :=
  mkHS (set_depfailed (hs s) id d) (hcalls s) (htrace s).

Section Prog.
  Variable D : Type.  (** what a successful access returns *)

  Inductive prog :=
  | Ret (o : outcome3)
  | Acc (k : option D -> prog).

  (** the hardware of one run: what the n-th fallible call returns *)
  Definition hardware := nat -> option D.

  Definition inject (m : fmode) (base : nat -> D) : hardware :=
    fun n => if fails m n then None else Some (base n).

  Definition failed (r : option D) : bool := match r with None => true | Some _ => false end.

  (** the check runs when [c] calls have been made; one flag per access it makes *)
  Fixpoint exec (p : prog) (hw : hardware) (c : nat) : outcome3 * list bool :=
    match p with
    | Ret o => (o, [])
    | Acc k =>
        let r := hw (S c) in
        let '(o, fl) := exec (k r) hw (S c) in
        (o, failed r :: fl)
    end.

  (** ** disciplines *)
  (** no leaf of the tree is a PASS *)
  Inductive no_pass : prog -> Prop :=
  | np_ret o : o <> o_pass -> no_pass (Ret o)
  | np_acc k : (forall r, no_pass (k r)) -> no_pass (Acc k).

  (** after a failed access no PASS is reachable *)
  Inductive fail_closed : prog -> Prop :=
  | fc_ret o : fail_closed (Ret o)
  | fc_acc k : no_pass (k None) -> (forall d, fail_closed (k (Some d))) -> fail_closed (Acc k).

  (** a failed access is turned into an internal error (no test error) at once *)
  Inductive converts : prog -> Prop :=
  | cv_ret o : converts (Ret o)
  | cv_acc k : (exists rc, k None = Ret (rc, false, true)) -> (forall d, converts (k (Some d))) ->
               converts (Acc k).

  (** ** the runner over the hardware *)
  Variable ts : nat -> test.
  Variable progs : nat -> nat -> prog.
  Variable hw : hardware.

  Fixpoint deps_loop_h (runf : hstate -> nat -> option hstate) (id : nat) (ds : list nat)
           (s : hstate) (ok : bool) : option (hstate * bool) :=
    match ds with
    | [] => Some (s, ok)
    | d :: ds' =>
        if is_notimpl (stat (ts d)) then deps_loop_h runf id ds' s ok
        else
          match (if is_notrun (res (hs s) d) then runf s d else Some s) with
          | None => None
          | Some s1 =>
              if is_pass (res (hs s1) d) then deps_loop_h runf id ds' s1 ok
              else deps_loop_h runf id ds' (set_depfailed_h s1 id d) false
          end
    end.

  Definition eval_check (s : hstate) (id : nat) (asdep : bool) : hstate :=
    let '(o, fl) := exec (progs id (evals id (trace (hs s)))) hw (hcalls s) in
    mkHS (set_checked (hs s) id asdep o) (hcalls s + length fl)
         (htrace s ++ [mkHev id asdep (hcalls s) fl o]).

  Fixpoint run_h (fuel : nat) (asdep : bool) (s : hstate) (id : nat) : option hstate :=
    match fuel with
    | O => None
    | S f =>
        match deps_loop_h (run_h f true) id (deps (ts id)) s true with
        | None => None
        | Some (s1, true) => Some (eval_check s1 id asdep)
        | Some (s1, false) => Some s1
        end
    end.

  Fixpoint run_list_h (fuel : nat) (s : hstate) (order : list nat) : option (hstate * list bool) :=
    match order with
    | [] => Some (s, [])
    | i :: rest =>
        match run_h fuel false s i with
        | None => None
        | Some s1 =>
            match run_list_h fuel s1 rest with
            | None => None
            | Some (s2, rs) => Some (s2, run_ret (hs s1) i :: rs)
            end
        end
    end.
End Prog.

Arguments Ret {D}.
Arguments Acc {D}.
Arguments inject {D}.
Arguments failed {D}.
Arguments exec {D}.
Arguments no_pass {D}.
Arguments fail_closed {D}.
Arguments converts {D}.
Arguments eval_check {D}.
Arguments run_h {D}.
Arguments run_list_h {D}.

(** * what is judged on an observed evaluation *)
Definition own_failed (fl : list bool) : bool := existsb (fun b => b) fl.
Definition is_o_pass (o : outcome3) : bool := let '(rc, te, ie) := o in rc && negb te && negb ie.

(** the check was handed an hwapi error and the evaluation still returned success *)
Definition swallowed (h : hev) : bool := own_failed (h_flags h) && is_o_pass (h_out h).
Definition swallows (tr : list hev) : list nat := map h_id (filter swallowed tr).

(** * straight-line programs (case language): [n] accesses whatever they return, then [o] *)
Fixpoint lin (n : nat) (o : outcome3) : prog unit :=
  match n with
  | O => Ret o
  | S m => Acc (fun _ => lin m o)
  end.

Definition init_hstate (s : state) : hstate := mkHS s 0 [].
