(** Executable model of cmd/core/txt-prov/config.go [loadConfig] (property C17: "a
    launch-control policy generated from user parameters carries exactly those
    parameters", for the policy the txt-prov tool builds from its JSON config file).

    The input is the [configJSON] struct after [json.Unmarshal]: eight Go strings (byte
    strings, a key that is not set is the empty string).  Faithful to the code as it is:
    - [parseHex]: [strings.TrimPrefix(strings.TrimPrefix(s, "0x"), "0X")] (one "0x", then
      one "0X": "0x0X302" is read as 0x302, "0x0x302" is not) followed by
      [strconv.ParseUint(s, 16, 0)]: base 16 given explicitly, so no further prefix, no
      sign, no underscore, the empty string (also what is left of "0x") is a syntax error, a
      value >= 2^64 a range error (both: error class [E_STRCONV]);
    - a Version that is not set is 0x300;
    - the version test is made on [uint16(ver)], [uint8(smv)] / [uint8(msmv)] cut silently;
    - [strings.Split(list, ",")] and [val += Map[item]]: a name that is not a key of the
      map adds 0 without an error, a name listed twice is added twice, in uintN arithmetic;
    - the keys of [tools.PolicyControlMap], [tools.HashMaskMap], [tools.SignMaskMap],
      [txt.HashMapping] o [tools.HashAlgMap] (the second site of the name handling);
    - the fixed fields: Reserved 0xff, Reserved2 8, and the placeholder PolicyHash
      00 01 02 .. for as many bytes as a digest of HashAlg has, at most 32 (SHA1: 00..13 then
      zeros; SHA256 and SHA384: 00..1f).
    No proofs here. *)
From CSS Require Import Lib.Base Model.LCP.
From Coq Require Import String Ascii.

(** a Go string literal as bytes *)
Definition bs (x : string) : list Z := map (fun a => Z.of_N (N_of_ascii a)) (list_ascii_of_string x).
Arguments bs x%string.

Definition E_STRCONV    : Z := 6.  (* *strconv.NumError of ParseUint *)
Definition E_CFGVERSION : Z := 7.  (* "invalid LCP Version" *)
Definition E_CFGHASH    : Z := 8.  (* "cant determin hash algorithm" *)
Definition E_CFGPTYPE   : Z := 9.  (* "invalid PolicyType" *)

(** ** [strconv.ParseUint(s, 16, 0)] *)
Definition hex_digit (c : Z) : option Z :=
  if (48 <=? c) && (c <=? 57) then Some (c - 48)          (* '0'..'9' *)
  else if (97 <=? c) && (c <=? 102) then Some (c - 87)    (* 'a'..'f' *)
  else if (65 <=? c) && (c <=? 70) then Some (c - 55)     (* 'A'..'F' *)
  else None.

Fixpoint hex_fold (acc : Z) (l : list Z) : option Z :=
  match l with
  | [] => Some acc
  | c :: t => match hex_digit c with None => None | Some d => hex_fold (acc * 16 + d) t end
  end.

Definition parse_hex (l : list Z) : option Z :=
  match l with
  | [] => None
  | _ => match hex_fold 0 l with
         | Some v => if v <? W64 then Some v else None
         | None => None
         end
  end.

(** [strings.TrimPrefix] *)
Fixpoint has_prefix (p l : list Z) : bool :=
  match p, l with
  | [], _ => true
  | a :: p', b :: l' => (a =? b) && has_prefix p' l'
  | _ :: _, [] => false
  end.
Definition trim_prefix (p l : list Z) : list Z := if has_prefix p l then skipn (Datatypes.length p) l else l.

(** [parseHex] of config.go *)
Definition cfg_hex (l : list Z) : option Z :=
  parse_hex (trim_prefix (bs "0X") (trim_prefix (bs "0x") l)).

(** ** [strings.Split(l, ",")]: never empty, [""] for the empty string *)
Definition COMMA : Z := 44.
Fixpoint split_comma (l : list Z) : list (list Z) :=
  match l with
  | [] => [[]]
  | c :: t => if c =? COMMA then [] :: split_comma t
              else match split_comma t with
                   | h :: r => (c :: h) :: r
                   | [] => [[c]]
                   end
  end.

(** ** the name maps (a Go map lookup of a missing key gives the zero value) *)
Fixpoint lookup (tbl : list (list Z * Z)) (k : list Z) : Z :=
  match tbl with
  | [] => 0
  | (n, v) :: t => if zlist_eqb n k then v else lookup t k
  end.

(* tools.PolicyControlMap *)
Definition pc_map : list (list Z * Z) :=
  [(bs "NPW", LCPPolicyControlNPW); (bs "SinitCaps", LCPPolicyControlSinitCaps);
   (bs "OwnerEnforced", LCPPolicyControlOwnerEnforced); (bs "AuxDelete", LCPPolicyControlAuxDelete)].
(* tools.HashMaskMap *)
Definition hmask_map : list (list Z * Z) := [(bs "SHA1", 1); (bs "SHA256", 8); (bs "SHA384", 64)].
(* tools.SignMaskMap *)
Definition smask_map : list (list Z * Z) :=
  [(bs "RSA2048SHA1", SigRSA2048SHA1); (bs "RSA2048SHA256", SigRSA2048SHA256);
   (bs "RSA3072SHA256", SigRSA3072SHA256); (bs "RSA3072SHA384", SigRSA3072SHA384);
   (bs "ECDSAP256SHA256", SigECDSAP256SHA256); (bs "ECDSAP384SHA384", SigECDSAP384SHA384)].

(* for _, item := range items { val += Map[item] }  in uintN arithmetic *)
Definition sum_names (wrap : Z -> Z) (tbl : list (list Z * Z)) (items : list (list Z)) : Z :=
  fold_left (fun acc it => wrap (acc + lookup tbl it)) items 0.

(* tools.HashAlgMap[txt.HashMapping[name]]: "SHA512" is a key of the first map only *)
Definition cfg_hash_alg (n : list Z) : option Z :=
  if zlist_eqb n (bs "SHA1") then Some AlgSHA1
  else if zlist_eqb n (bs "SHA256") then Some AlgSHA256
  else if zlist_eqb n (bs "SHA384") then Some AlgSHA384
  else None.

Definition cfg_ptype (n : list Z) : option Z :=
  if zlist_eqb n (bs "Any") then Some 1
  else if zlist_eqb n (bs "List") then Some 0
  else None.

(* if len(str) > 0 { parseHex } else { default } *)
Definition opt_hex (dflt : Z) (l : list Z) : option Z :=
  match l with [] => Some dflt | _ => cfg_hex l end.

(* txt.HashMapping[config.HashAlg].Size() for the algorithms that get this far *)
Definition cfg_digest_size (alg : Z) : nat :=
  if alg =? AlgSHA1 then 20%nat else if alg =? AlgSHA256 then 32%nat else 48%nat.
(* for i := 0; i < len(hash) && i < size; i++ { hash[i] = byte(i) } *)
Definition cfg_hash (alg : Z) : list Z := fix_len 32 (seqZ 0 (cfg_digest_size alg)).

Record config : Type := MkCfg {
  c_version : list Z; c_hashalg : list Z; c_ptype : list Z; c_sinit : list Z;
  c_maxsinit : list Z; c_pc : list Z; c_hmask : list Z; c_smask : list Z }.

Definition load_config (c : config) : outcome policy2 :=
  match opt_hex LCPPolicyVersion3 (c_version c) with
  | None => Err E_STRCONV
  | Some ver =>
    let v16 := wrap16 ver in
    if (v16 <? 768) || (774 <? v16) then Err E_CFGVERSION else
    match cfg_hash_alg (c_hashalg c) with
    | None => Err E_CFGHASH
    | Some alg =>
      match cfg_ptype (c_ptype c) with
      | None => Err E_CFGPTYPE
      | Some pt =>
        match opt_hex 0 (c_sinit c) with
        | None => Err E_STRCONV
        | Some smv =>
          match opt_hex 255 (c_maxsinit c) with
          | None => Err E_STRCONV
          | Some msmv =>
            Ok (MkP2 v16 alg pt (wrap8 smv) (repeat 0 8%nat)
                     (sum_names wrap32 pc_map (split_comma (c_pc c)))
                     (wrap8 msmv) 255
                     (sum_names wrap16 hmask_map (split_comma (c_hmask c)))
                     (sum_names wrap32 smask_map (split_comma (c_smask c)))
                     8 (cfg_hash alg))
          end
        end
      end
    end
  end.
