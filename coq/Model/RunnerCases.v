(** Case language of the C06 correspondence check.  The Go harness
    (harness/cmd/c06) builds Test values through the verif hook of pkg/test,
    runs the real Test.Run / RunTestsSilent on them and writes what it observed;
    [check] re-runs the model on the same graph, oracle, initial results and
    run order. *)
From CSS Require Import Lib.Base Lib.Cases Model.Runner Model.RunnerFault.

Definition default_test : test := mkTest false Implemented [].
Definition ts_of (l : list test) : nat -> test := fun i => nth i l default_test.

(** per test the list of what successive evaluations return; the last entry
    repeats for ever *)
Definition chk_of (l : list (list outcome3)) : nat -> nat -> outcome3 :=
  fun id n => let os := nth id l [] in nth n os (last os (false, false, false)).

Definition st_of (init : list result) : state :=
  mkSt (fun i => nth i init RNotRun) (fun _ => None) [].

Definition result_eqb (a b : result) : bool :=
  match a, b with
  | RNotRun, RNotRun | RDepFailed, RDepFailed | RIntErr, RIntErr | RFail, RFail | RPass, RPass => true
  | _, _ => false
  end.

Definition out_eqb (a b : outcome3) : bool :=
  let '(a1, a2, a3) := a in let '(b1, b2, b3) := b in
  Bool.eqb a1 b1 && Bool.eqb a2 b2 && Bool.eqb a3 b3.

Definition event_eqb (a b : event) : bool :=
  Nat.eqb (ev_id a) (ev_id b) && Bool.eqb (ev_dep a) (ev_dep b) && out_eqb (ev_out a) (ev_out b).

Definition optnat_eqb (a b : option nat) : bool :=
  match a, b with
  | None, None => true
  | Some x, Some y => Nat.eqb x y
  | _, _ => false
  end.

Definition sret_eqb (a b : silent_ret) : bool :=
  match a, b with
  | SOk, SOk | SIntErr, SIntErr => true
  | SFail i r, SFail j q => Nat.eqb i j && result_eqb r q
  | _, _ => false
  end.

(** what the caller saw *)
Inductive observed :=
| ObsList (rets : list bool)        (* return value of every Test.Run, in order *)
| ObsSilent (r : silent_ret).       (* RunTestsSilent *)

(** [CFault]: a run of Test.Run calls on the REAL checks of the suites under a
    fault pattern (harness/cmd/c06, Part B).  [shapes]: per test, for its 1st,
    2nd, ... evaluation in this run, how many hardware accesses the check made
    and what it returned (last entry repeats); the model re-executes the run
    with the straight-line programs of that shape over [inject m] (Model/RunnerFault.v)
    and must reproduce the return values, stored results, blames, every
    evaluation with its window of calls and per-access failure flags as the
    harness' injector recorded them, the total number of hardware calls of the
    run, and the list of evaluations that returned success although an access
    of their own failed ([swallows], what the harness' oracle judges). *)
Inductive case : Type :=
| CRun (tests : list test) (oracle : list (list outcome3)) (init : list result) (order : list nat)
       (o : observed) (final : list result) (blames : list (option nat)) (tr : list event)
| CFault (tests : list test) (shapes : list (list (nat * outcome3))) (init : list result) (order : list nat)
         (m : fmode) (rets : list bool) (final : list result) (blames : list (option nat))
         (htr : list hev) (total : nat) (sw : list nat).

Definition progs_of (l : list (list (nat * outcome3))) : nat -> nat -> prog unit :=
  fun id n =>
    let ps := nth id l [] in
    let '(k, o) := nth n ps (last ps (0%nat, (false, false, false))) in
    lin k o.

Definition hev_eqb (a b : hev) : bool :=
  Nat.eqb (h_id a) (h_id b) && Bool.eqb (h_dep a) (h_dep b) && Nat.eqb (h_from a) (h_from b)
  && list_eqb Bool.eqb (h_flags a) (h_flags b) && out_eqb (h_out a) (h_out b).

Definition final_ok (n : nat) (s : state) (final : list result) (blames : list (option nat)) (tr : list event) : bool :=
  list_eqb result_eqb (map (res s) (seq 0 n)) final
  && list_eqb optnat_eqb (map (blame s) (seq 0 n)) blames
  && list_eqb event_eqb (trace s) tr.

Definition check (c : case) : bool :=
  match c with
  | CRun tests oracle init order o final blames tr =>
      let n := length tests in
      let ts := ts_of tests in
      let chk := chk_of oracle in
      match o with
      | ObsList rets =>
          match run_list ts chk (S n) (st_of init) order with
          | Some (s, rs) => list_eqb Bool.eqb rs rets && final_ok n s final blames tr
          | None => false
          end
      | ObsSilent r =>
          match run_silent ts chk (S n) (st_of init) order with
          | Some (s, r') => sret_eqb r' r && final_ok n s final blames tr
          | None => false
          end
      end
  | CFault tests shapes init order m rets final blames htr total sw =>
      let n := length tests in
      match run_list_h (ts_of tests) (progs_of shapes) (inject m (fun _ => tt)) (S n)
                       (init_hstate (st_of init)) order with
      | Some (s, rs) =>
          list_eqb Bool.eqb rs rets && final_ok n (hs s) final blames (map hev_ev htr)
          && list_eqb hev_eqb (htrace s) htr && Nat.eqb (hcalls s) total
          && list_eqb Nat.eqb (swallows (htrace s)) sw
      | None => false
      end
  end.

Definition mismatches := mismatches_by check.
