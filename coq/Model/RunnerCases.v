(** Case language of the C06 correspondence check.  The Go harness
    (harness/cmd/c06) builds Test values through the verif hook of pkg/test,
    runs the real Test.Run / RunTestsSilent on them and writes what it observed;
    [check] re-runs the model on the same graph, oracle, initial results and
    run order. *)
From CSS Require Import Lib.Base Lib.Cases Model.Runner.

Definition default_test : test := mkTest false Implemented [].
Definition ts_of (l : list test) : nat -> test := fun i => nth i l default_test.

(** per test the list of what successive evaluations return; the last entry
    repeats for ever *)
Definition chk_of (l : list (list outcome3)) : nat -> nat -> outcome3 :=
  fun id n => let os := nth id l [] in nth n os (last os (false, false, false)).

Definition st_of (init : list result) : state :=
  mkSt (fun i => nth i init RNotRun) (fun _ => None) [].

Definition result_eqb (a b : result) : bool :=
  match a, b with
  | RNotRun, RNotRun | RDepFailed, RDepFailed | RIntErr, RIntErr | RFail, RFail | RPass, RPass => true
  | _, _ => false
  end.

Definition out_eqb (a b : outcome3) : bool :=
  let '(a1, a2, a3) := a in let '(b1, b2, b3) := b in
  Bool.eqb a1 b1 && Bool.eqb a2 b2 && Bool.eqb a3 b3.

Definition event_eqb (a b : event) : bool :=
  Nat.eqb (ev_id a) (ev_id b) && Bool.eqb (ev_dep a) (ev_dep b) && out_eqb (ev_out a) (ev_out b).

Definition optnat_eqb (a b : option nat) : bool :=
  match a, b with
  | None, None => true
  | Some x, Some y => Nat.eqb x y
  | _, _ => false
  end.

Definition sret_eqb (a b : silent_ret) : bool :=
  match a, b with
  | SOk, SOk | SIntErr, SIntErr => true
  | SFail i r, SFail j q => Nat.eqb i j && result_eqb r q
  | _, _ => false
  end.

(** what the caller saw *)
Inductive observed :=
| ObsList (rets : list bool)        (* return value of every Test.Run, in order *)
| ObsSilent (r : silent_ret).       (* RunTestsSilent *)

Inductive case : Type :=
| CRun (tests : list test) (oracle : list (list outcome3)) (init : list result) (order : list nat)
       (o : observed) (final : list result) (blames : list (option nat)) (tr : list event).

Definition final_ok (n : nat) (s : state) (final : list result) (blames : list (option nat)) (tr : list event) : bool :=
  list_eqb result_eqb (map (res s) (seq 0 n)) final
  && list_eqb optnat_eqb (map (blame s) (seq 0 n)) blames
  && list_eqb event_eqb (trace s) tr.

Definition check (c : case) : bool :=
  match c with
  | CRun tests oracle init order o final blames tr =>
      let n := length tests in
      let ts := ts_of tests in
      let chk := chk_of oracle in
      match o with
      | ObsList rets =>
          match run_list ts chk (S n) (st_of init) order with
          | Some (s, rs) => list_eqb Bool.eqb rs rets && final_ok n s final blames tr
          | None => false
          end
      | ObsSilent r =>
          match run_silent ts chk (S n) (st_of init) order with
          | Some (s, r') => sret_eqb r' r && final_ok n s final blames tr
          | None => false
          end
      end
  end.

Definition mismatches := mismatches_by check.
