(** One iterator seen by the goroutine that owns it, and hinted evaluation.

    1. [lop] / [lstep] / [lrun]: the calls a goroutine makes on an iterator of
       its own (pkg/bruteforcer/indexes.go: Next, SetCombinationID,
       GetCombination, GetCombinationID, AmountOfCombinations), on the VALUE
       of the combination.  Nothing else is an input of a call: the package
       keeps no state besides the lookup table, which is written once at
       init time and only read afterwards.  Proofs/CombConc.v shows that in
       the slice-level model (Model/CombHeap.v) this is what the owner of a
       private iterator observes under EVERY interleaving of its calls with
       calls made on other iterators ([sched_independent]).  The harness runs
       real goroutines, one per iterator, and compares each of them with
       [lrun]: an implementation whose calls on different iterators share
       anything (a package-level scratch value, ...) does not refine this
       model.

    2. Hints: the N-section search of [seek] costs the evaluator O(m) ranks.
       The harness reads the iterator's position right after every
       SetCombinationID and passes it along; [seek_h] accepts the hint after
       checking that it is THE valid combination with the requested ID
       (rank is injective: Proofs/Comb.v), and runs the real [seek]
       otherwise.  [seek_h m k id hint = seek m k id] for every hint
       (Proofs/CombConc.v [seek_h_eq]), so a wrong hint can make the check
       slower, never different.  Executable definitions only. *)
From CSS Require Import Lib.Base Model.Comb Model.CombHeap.

(** * Hinted seek *)

(** boolean reading of [Inc] (Proofs/Comb.v): strictly increasing, within (lo, m] *)
Fixpoint incb (lo m : Z) (s : list Z) : bool :=
  match s with
  | [] => true
  | x :: t => (lo <? x) && (x <=? m) && incb x m t
  end.

(** [s] is a valid [k]-combination over {0..m} whose ID is [id], and (m, k) is in
    the domain where IDs are exact: k <= m+1 < 2^63 and C(m+1,k) < 2^64 *)
Definition seek_fast_ok (m : Z) (k : nat) (id : Z) (s : list Z) : bool :=
  incb (-1) m s && Nat.eqb (length s) k &&
  (Z.of_nat k <=? m + 1) && (m + 1 <? 9223372036854775808) &&
  (binom_fast (m + 1) k <? W64) && (rank64 m s =? id).

Definition seek_h (m : Z) (k : nat) (id : Z) (hint : list Z) : outcome (list Z) :=
  if seek_fast_ok m k id hint then Ok hint else seek m k id.

(** * One iterator, by value *)

Inductive lop : Type :=
| LNext                 (* iter.Next() *)
| LSeek (id : Z)        (* iter.SetCombinationID(id) *)
| LGet                  (* r := iter.GetCombination(), kept by the caller *)
| LID                   (* iter.GetCombinationID() *)
| LAmount.              (* iter.AmountOfCombinations() *)

(** new position, what the call returned, and the combination handed out (LGet) *)
Definition lstep_h (m : Z) (o : lop) (hint : list Z) (s : list Z) : outcome (list Z * ev * list (list Z)) :=
  match o with
  | LNext => let '(more, s') := next m s in Ok (s', EBool more, [])
  | LSeek id => bind (seek_h m (length s) id hint) (fun s' => Ok (s', ENone, []))
  | LGet => Ok (s, ENone, [s])
  | LID => Ok (s, EZ (rank64 m s), [])
  | LAmount => Ok (s, EZ (amount64 m (length s)), [])
  end.

Definition lstep (m : Z) (o : lop) (s : list Z) : outcome (list Z * ev * list (list Z)) :=
  match o with
  | LSeek id => bind (seek m (length s) id) (fun s' => Ok (s', ENone, []))
  | _ => lstep_h m o [] s
  end.

(** final position, events, combinations handed out (in order) *)
Fixpoint lrun (m : Z) (ops : list lop) (s : list Z) : outcome (list Z * list ev * list (list Z)) :=
  match ops with
  | [] => Ok (s, [], [])
  | o :: t =>
      bind (lstep m o s) (fun '(s1, e, g) =>
        bind (lrun m t s1) (fun '(s2, es, gs) => Ok (s2, e :: es, g ++ gs)))
  end.

Definition is_seek (o : lop) : bool := match o with LSeek _ => true | _ => false end.

(** the same with one hint per LSeek (missing hints count as []) *)
Fixpoint lrun_h (m : Z) (ops : list lop) (hints : list (list Z)) (s : list Z)
  : outcome (list Z * list ev * list (list Z)) :=
  match ops with
  | [] => Ok (s, [], [])
  | o :: t =>
      let hint := if is_seek o then hd [] hints else [] in
      let hints' := if is_seek o then tl hints else hints in
      bind (lstep_h m o hint s) (fun '(s1, e, g) =>
        bind (lrun_h m t hints' s1) (fun '(s2, es, gs) => Ok (s2, e :: es, g ++ gs)))
  end.

(** * Slice-level programs with hints *)

Definition step_h (o : op) (hint : list Z) (st : hstate) : outcome (hstate * ev) :=
  match o with
  | OSeek i id =>
      let h := h_mem st in
      with_iter st i (fun it =>
        bind (seek_h (it_max it) (length (rd h (it_arr it))) id hint) (fun s' =>
          Ok (mkH (wr h (it_arr it) s') (h_iters st) (h_res st), ENone)))
  | _ => step o st
  end.

Definition op_is_seek (o : op) : bool := match o with OSeek _ _ => true | _ => false end.

Fixpoint run_h (ops : list op) (hints : list (list Z)) (st : hstate) : outcome (hstate * list ev) :=
  match ops with
  | [] => Ok (st, [])
  | o :: t =>
      let hint := if op_is_seek o then hd [] hints else [] in
      let hints' := if op_is_seek o then tl hints else hints in
      bind (step_h o hint st) (fun '(st1, e) =>
        bind (run_h t hints' st1) (fun '(st2, es) => Ok (st2, e :: es)))
  end.

(** * The owner's view of a schedule *)

(** the call [o] of a schedule, if it is one the owner of iterator [i] makes on it *)
Definition own (i : nat) (o : op) : option lop :=
  match o with
  | ONext j => if Nat.eqb j i then Some LNext else None
  | OSeek j id => if Nat.eqb j i then Some (LSeek id) else None
  | OGet j => if Nat.eqb j i then Some LGet else None
  | OID j => if Nat.eqb j i then Some LID else None
  | OAmount j => if Nat.eqb j i then Some LAmount else None
  | _ => None
  end.

(** the calls made on iterator [i] in the schedule [ops], with what they returned *)
Fixpoint view (i : nat) (ops : list op) (es : list ev) : list (lop * ev) :=
  match ops, es with
  | o :: ops', e :: es' =>
      match own i o with
      | Some lo => (lo, e) :: view i ops' es'
      | None => view i ops' es'
      end
  | _, _ => []
  end.
