(** Data sources of a boot flow (property C01): pkg/bootflow/datasources
    (static_data.go, bytes.go, mem_ranges.go, concat.go) and the parts of
    pkg/bootflow/types/data.go they use (NewData, NewReference,
    References.ForcedBytes).

    Model/BootSim.v starts where [DataSource.Data(ctx, state)] has returned: a
    measurement carries [DS data], [DSErr] or [DSPanic].  Here the source itself is
    part of the flow: [src_data] is [DataSource.Data] for the constructors whose
    logic lives in the repository --

      StaticData    the *types.Data it was made from;
      Bytes(b)      types.NewData(types.RawBytes(b)): no reference at all for a nil
                    slice, else ONE reference: the artifact is the byte string itself,
                    no address mapper, the single range [0, len b);
      MemRanges     an error when the State has no BIOS image, else ONE reference into
                    the image under PhysMemMapper with the ranges as given
                    (PhysMemMapper.Resolve never fails);
      Concat        the sub-sources in order; the first one that fails ends it with
                    its error (a panic is a panic); a sub-source whose Data has forced
                    bytes (a non-empty types.RawBytes artifact among its references) or a
                    Converter is refused; else the references of all of them,
                    concatenated in order, no converter;

    -- and [SReported] stands for a source whose lookup is third-party code (fiano's
    volume walk behind UEFIGUIDFirst and the like): what it reported.

    What a reference IS stays a parameter (as in Model/BootSim.v); the platform
    record says how the two constructors that make references make them and which
    bytes a reference forces.  Model/BootSimCases.v instantiates it with C11's
    references. *)
From CSS Require Import Lib.Base Model.TPM Model.BootSim.

Section Src.
Variable ref : Type.

Record platform := mkPlat {
  p_image : bool;                       (* biosimage.Get(state) finds a BIOS image *)
  p_bytes_ref : list Z -> ref;          (* *types.NewReference(types.RawBytes(b)) *)
  p_mem_ref : list (Z * Z) -> ref;      (* Reference{Artifact: the image, PhysMemMapper{}, Ranges: (offset, length) ...} *)
  p_forced : ref -> list Z              (* the artifact's bytes when it is a types.RawBytes, else none *)
}.

Variable P : platform.

Inductive source :=
| SStatic (d : mdata ref)
| SBytes (b : option (list Z))
| SMemRanges (rs : list (Z * Z))
| SConcat (l : list source)
| SReported (r : dsrc ref).

Definition ERR_SOURCE : Z := 1.
Definition ERR_FORCED : Z := 2.
Definition ERR_CONVERTER : Z := 3.

Definition is_empty (b : list Z) : bool := match b with [] => true | _ => false end.

(** [References.ForcedBytes() != nil]: some types.RawBytes artifact among the
    references is not empty *)
Definition has_forced (rs : list ref) : bool := existsb (fun r => negb (is_empty (p_forced P r))) rs.

(** the loop of [Concat.Data] once [Data] of a sub-source is known *)
Definition concat_step (acc : list ref) (x : outcome (mdata ref)) : outcome (list ref) :=
  match x with
  | Ok d =>
      if has_forced (d_refs d) then Err ERR_FORCED
      else match d_conv d with
           | Some _ => Err ERR_CONVERTER
           | None => Ok (acc ++ d_refs d)
           end
  | Err e => Err e
  | Panic => Panic
  | OutOfFuel => OutOfFuel
  end.

Fixpoint concat_loop (acc : list ref) (xs : list (outcome (mdata ref))) : outcome (list ref) :=
  match xs with
  | [] => Ok acc
  | x :: rest => bind (concat_step acc x) (fun acc' => concat_loop acc' rest)
  end.

(** [DataSource.Data(ctx, state)].  The sub-sources of a Concat are asked one after the
    other and the first failure ends the loop; since asking has no effect, asking all
    of them first ([map]) and stopping at the first failure is the same. *)
Fixpoint src_data (s : source) : outcome (mdata ref) :=
  match s with
  | SStatic d => Ok d
  | SBytes None => Ok (mkData [] None)
  | SBytes (Some b) => Ok (mkData [p_bytes_ref P b] None)
  | SMemRanges rs => if p_image P then Ok (mkData [p_mem_ref P rs] None) else Err ERR_SOURCE
  | SConcat l => bind (concat_loop [] (map src_data l)) (fun refs => Ok (mkData refs None))
  | SReported r =>
      match r with
      | DS d => Ok d
      | DSErr => Err ERR_SOURCE
      | DSPanic => Panic
      end
  end.

(** what the action sees *)
Definition resolve (s : source) : dsrc ref :=
  match src_data s with
  | Ok d => DS d
  | Err _ => DSErr
  | _ => DSPanic
  end.

(** an item of a flow whose measurements name their source *)
Inductive sitem :=
| SEv (p : Z) (s : source) (ty : Z) (evd : option (list Z))   (* NewTPMEvent / tpmsteps.Measure *)
| SEx (p : Z) (s : source) (a : Z)                            (* NewTPMExtend *)
| SI (it : item ref).                                         (* every other item *)

Definition resolve_item (x : sitem) : item ref :=
  match x with
  | SEv p s ty evd => IEvent p (resolve s) ty evd
  | SEx p s a => IExtend p (resolve s) a
  | SI it => it
  end.

Definition resolve_flow (fl : list (list sitem)) : list (list (item ref)) := map (map resolve_item) fl.

End Src.

Arguments mkPlat {ref}.
Arguments p_image {ref}.
Arguments p_bytes_ref {ref}.
Arguments p_mem_ref {ref}.
Arguments p_forced {ref}.
Arguments SStatic {ref}.
Arguments SBytes {ref}.
Arguments SMemRanges {ref}.
Arguments SConcat {ref}.
Arguments SReported {ref}.
Arguments SEv {ref}.
Arguments SEx {ref}.
Arguments SI {ref}.
