(** The ledger of a boot flow (property C01): what the ITEMS of a flow send to the
    simulated TPM, computed from the items alone, and the command log with the
    coordinates of the action that caused each command.

    Two things live here, both executable:

    1. [run_flow_tagged]: Model/BootSim.v's run with what [TPM.TPMExecute] records
       beside every command: the coordinates (index of the executed step, index of
       the action inside the step) of [State.CurrentActionCoordinates] at the time,
       i.e. of the action whose [Apply] issued the command
       (tpmactions.NewLogInfoProvider(state).CauseCoordinates()).  The commands an
       action issued are the commands by which the command log grew while it was
       applied (nothing else appends to the log: [TPMExecute] is the only writer).

    2. the SPECIFICATION of that log ([flow_ledger], [led_tagged]): a function of the
       items, of whether the TPM was started and of SupportedAlgos only -- no TPM state
       machine, no PCR value.  Per action [act_ledger]: the commands it sends (TPMInit:
       one init command; TPMEventLogAdd: its one entry; TPMExtend of readable data:
       one extend of the converted bytes; TPMEvent of readable data: per bank, SHA1
       then SHA256, extend and log-add of the hash of the converted bytes -- or, when
       the TPM refuses the first extend (not started, PCR other than 0/1), that one
       extend and nothing else; data that cannot be read, a failing source, Panic:
       nothing), whether it returns nil, and what it adds to MeasuredData.
       Proofs/BootSimLedger.v: on every boot the run IS its ledger (command log,
       event log, MeasuredData, which actions had issues, causes). *)
From CSS Require Import Lib.Base Model.TPM Model.BootSim.

Section Ledger.
Variable ref : Type.
Variable bytes_of : ref -> outcome (list Z).
Variable H : Z -> list Z -> list Z.

Notation converted := (BootSim.converted ref bytes_of H).
Notation apply_act := (BootSim.apply_act ref bytes_of H).
Notation compile_step := (BootSim.compile_step ref bytes_of H).
Notation run_step := (BootSim.run_step ref bytes_of H).
Notation tact := (BootSim.tact ref).
Notation item := (BootSim.item ref).
Notation mdata := (BootSim.mdata ref).
Notation sim := (BootSim.sim ref).

(** * 1. The run, with causes *)

(** the actions of one step: every command the log grew by while action [j] of
    step [i] was applied is tagged [(i, j)] *)
Fixpoint run_acts_tagged (s : sim) (i j : nat) (acts : list tact) : sim * list (nat * nat * cmd) :=
  match acts with
  | [] => (s, [])
  | a :: rest =>
      let s1 := fst (apply_act s a) in
      let new := skipn (length (cmdlog (s_tpm s))) (cmdlog (s_tpm s1)) in
      let '(s2, cs) := run_acts_tagged s1 i (S j) rest in
      (s2, map (fun c => (i, j, c)) new ++ cs)
  end.

Definition run_step_tagged (s : sim) (i : nat) (its : list item) : sim * list (nat * nat * cmd) :=
  match compile_step (s_tpm s) its with
  | Ok acts => run_acts_tagged s i 0 acts
  | _ => (s, [])
  end.

Fixpoint run_flow_tagged (s : sim) (i : nat) (fl : list (list item)) : sim * list (nat * nat * cmd) :=
  match fl with
  | [] => (s, [])
  | st :: rest =>
      let '(s1, c1) := run_step_tagged s i st in
      let '(s2, c2) := run_flow_tagged s1 (S i) rest in
      (s2, c1 ++ c2)
  end.

(** * 2. The specification *)

(** the TPM accepts an extend: it was started, the PCR is 0 or 1, the bank SHA1 or SHA256 *)
Definition ext_accepted (started : bool) (p a : Z) : bool :=
  started && (0 <=? p) && (p <? 2) && is_supported a.

(** TPM2_PCR_Event: per bank, extend and log-add of the hash of the bytes *)
Definition event_cmds (p : Z) (msg : list Z) (ty : Z) (evd : option (list Z)) (algs : list Z) : list cmd :=
  flat_map (fun a => [Extend p a (H a msg); LogAdd p a (H a msg) ty evd]) algs.

(** one action: commands sent, returned nil?, added to MeasuredData *)
Record aled := mkALed { al_cmds : list cmd; al_ok : bool; al_meas : list mdata }.

Definition no_trace : aled := mkALed [] false [].

Definition act_ledger (started : bool) (a : tact) : aled :=
  match a with
  | AInit l => mkALed [Startup l] (negb started) []
  | AEvent p (DS d) ty evd =>
      match converted d with
      | Ok msg =>
          if ext_accepted started p ALG_SHA1
          then mkALed (event_cmds p msg ty evd supported) true [d]
          else mkALed [Extend p ALG_SHA1 (H ALG_SHA1 msg)] false []
      | _ => no_trace
      end
  | AExtend p (DS d) a =>
      match converted d with
      | Ok msg =>
          if ext_accepted started p a
          then mkALed [Extend p a msg] true [d]
          else mkALed [Extend p a msg] false []
      | _ => no_trace
      end
  | ALogAdd p a dg ty evd => mkALed [LogAdd p a dg ty evd] true []
  | _ => no_trace
  end.

Definition is_init (a : tact) : bool := match a with AInit _ => true | _ => false end.

Fixpoint acts_ledger (started : bool) (acts : list tact) : list aled :=
  match acts with
  | [] => []
  | a :: rest => act_ledger started a :: acts_ledger (started || is_init a) rest
  end.

(** all the ledger knows of the TPM object: SupportedAlgos (LogInit writes one entry per
    algorithm of that list) *)
Definition algos_only (al : list Z) : state := mkState al [] [] [].

(** per executed step: [None] when Step.Actions panicked (an issue, no action),
    else the ledger of its actions *)
Fixpoint flow_ledger (al : list Z) (started : bool) (fl : list (list item)) : list (option (list aled)) :=
  match fl with
  | [] => []
  | its :: rest =>
      match compile_step (algos_only al) its with
      | Ok acts => Some (acts_ledger started acts) :: flow_ledger al (started || existsb is_init acts) rest
      | _ => None :: flow_ledger al started rest
      end
  end.

Definition step_cmds (o : option (list aled)) : list cmd :=
  match o with Some l => flat_map al_cmds l | None => [] end.
Definition step_meas (o : option (list aled)) : list mdata :=
  match o with Some l => flat_map al_meas l | None => [] end.
(** per action: an issue was recorded *)
Definition step_issues (o : option (list aled)) : list bool :=
  match o with Some l => map (fun x => negb (al_ok x)) l | None => [true] end.

Definition led_cmds (L : list (option (list aled))) : list cmd := flat_map step_cmds L.
Definition led_meas (L : list (option (list aled))) : list mdata := flat_map step_meas L.
Definition led_issues (L : list (option (list aled))) : list (list bool) := map step_issues L.

(** the commands with the coordinates of their cause *)
Fixpoint acts_tagged (i j : nat) (l : list aled) : list (nat * nat * cmd) :=
  match l with
  | [] => []
  | x :: rest => map (fun c => (i, j, c)) (al_cmds x) ++ acts_tagged i (S j) rest
  end.

Fixpoint led_tagged (i : nat) (L : list (option (list aled))) : list (nat * nat * cmd) :=
  match L with
  | [] => []
  | o :: rest => match o with Some l => acts_tagged i 0 l | None => [] end ++ led_tagged (S i) rest
  end.

End Ledger.

Arguments mkALed {ref}.
Arguments al_cmds {ref}.
Arguments al_ok {ref}.
Arguments al_meas {ref}.
Arguments step_cmds {ref}.
Arguments step_meas {ref}.
Arguments step_issues {ref}.
Arguments led_cmds {ref}.
Arguments led_meas {ref}.
Arguments led_issues {ref}.
Arguments acts_tagged {ref}.
Arguments led_tagged {ref}.

(** an action had an issue (an error or a panic) *)
Definition failed (r : outcome unit) : bool := match r with Ok _ => false | _ => true end.
