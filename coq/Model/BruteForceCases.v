(** Case language of the C07 correspondence check.  The Go harness
    (harness/cmd/c07) runs bruteforcer.BruteForce with recording callbacks and
    writes what it saw; [check] decides whether the schedule relation of
    Model/BruteForce.v admits it ([admits]; soundness w.r.t. [bf_run] is
    [admits_sound] in Proofs/BruteForce.v) and whether what every worker
    offered to checkFunc is what the model worker offers. *)
From CSS Require Import Lib.Base Lib.Cases Model.Comb Model.BruteForce.

(** * Predicates the harness can hand to both sides *)
Inductive pred (A : Type) : Type :=
| PFalse
| PTrue
| PAny (targets : list (list A))      (* the data is one of the targets *)
| PAt (cs : list (nat * A))           (* data[i] = a for every listed (i, a) *)
| POr (p q : pred A).
Arguments PFalse {A}.
Arguments PTrue {A}.
Arguments PAny {A} targets.
Arguments PAt {A} cs.
Arguments POr {A} p q.

(** short-circuit versions: vm_compute is call-by-value *)
Fixpoint eqb_list {A} (eqb : A -> A -> bool) (a b : list A) : bool :=
  match a, b with
  | [], [] => true
  | x :: a', y :: b' => if eqb x y then eqb_list eqb a' b' else false
  | _, _ => false
  end.

Fixpoint any_l {X} (f : X -> bool) (l : list X) : bool :=
  match l with [] => false | x :: t => if f x then true else any_l f t end.
Fixpoint all_l {X} (f : X -> bool) (l : list X) : bool :=
  match l with [] => true | x :: t => if f x then all_l f t else false end.

Fixpoint eval_pred {A} (eqb : A -> A -> bool) (p : pred A) (d : list A) : bool :=
  match p with
  | PFalse => false
  | PTrue => true
  | PAny ts => any_l (fun t => eqb_list eqb t d) ts
  | PAt cs => all_l (fun c => match nth_error d (fst c) with
                              | Some x => eqb x (snd c)
                              | None => false
                              end) cs
  | POr p q => if eval_pred eqb p d then true else eval_pred eqb q d
  end.

(** * What the harness observed of one worker that offered something *)
Inductive evid (A : Type) : Type :=
| EDig (dig : Z)                      (* [mixc]-digest of the diffs (offered vs initial data) *)
| EFull (offered : list (list A)).    (* every value passed to checkFunc, in order *)
Arguments EDig {A} dig.
Arguments EFull {A} offered.

Record wobs (A : Type) : Type := WObs {
  w_first : cand;      (* positions in which the first offered value differs from the initial data *)
  w_n : Z;             (* number of checkFunc calls *)
  w_hit : bool;        (* its last checkFunc call returned true *)
  w_ev : evid A
}.
Arguments WObs {A}.
Arguments w_first {A}.
Arguments w_n {A}.
Arguments w_hit {A}.
Arguments w_ev {A}.

Definition is_some {X} (o : option X) : bool := match o with Some _ => true | None => false end.

Section Check.
  Context {A : Type}.
  Variable flip : list Z -> list A -> outcome (list A).
  Variable eqbA : A -> A -> bool.
  Variable P : list A -> bool.
  Variable ifail : Z -> Z -> bool.
  Variables (gomax maxconc : Z).

  (** evidence: the first [n] candidates of the model worker *)
  Fixpoint offered_eqb (data : list A) (l : list cand) (o : list (list A)) : bool :=
    match l, o with
    | [], [] => true
    | s :: l', v :: o' =>
        match flip s data with
        | Ok v' => if eqb_list eqbA v v' then offered_eqb data l' o' else false
        | _ => false
        end
    | _, _ => false
    end.

  Definition evidence_ok (m : Z) (k : nat) (data : list A) (se : Z * Z) (n h : Z) (e : evid A) : bool :=
    match e with
    | EDig dg => h =? dg
    | EFull o =>
        match worker_scan flip P m k data se with
        | Ok (l, _) => offered_eqb data (firstn (Z.to_nat n) l) o
        | _ => false
        end
    end.

  (** One worker against what was seen of it ([None]: it offered nothing).
      Returns [None] when not admitted, else the hit it published, if any. *)
  Definition worker_check (m : Z) (k : nat) (data : list A) (se : Z * Z)
             (failed anypub : bool) (o : option (wobs A)) : option (option cand) :=
    match o with
    | None =>
        (* silent: its initFunc failed, or it saw a published result before its
           first try; its uninterrupted scan must still be defined *)
        if failed || anypub then
          match worker_dig flip P m k data se 0 with Ok _ => Some None | _ => None end
        else None
    | Some w =>
        if failed then None
        else if w_n w <? 1 then None
        else match worker_dig flip P m k data se (w_n w) with
             | Ok (L, h, hit) =>
                 if negb (evidence_ok m k data se (w_n w) h (w_ev w)) then None
                 else if w_hit w then
                   (if (w_n w =? L) && is_some hit then Some hit else None)
                 else if anypub then
                   (if (w_n w <=? L) && (if is_some hit then w_n w <? L else true)
                    then Some None else None)
                 else (if (w_n w =? L) && negb (is_some hit) then Some None else None)
             | _ => None
             end
    end.

  (** Walk the pieces in order; the observed workers are sorted by the ID of
      their first candidate, so a piece either matches the head or was silent.
      Returns the published hits. *)
  Fixpoint round_walk (m : Z) (k : nat) (data : list A) (ps : list (Z * Z)) (fails : list bool)
           (anypub : bool) (os : list (wobs A)) : option (list cand) :=
    match ps, fails with
    | [], [] => match os with [] => Some [] | _ => None end
    | se :: ps', f :: fails' =>
        match seek m k (fst se) with
        | Ok s0 =>
            let '(o, os') :=
              match os with
              | w :: t => if zlist_eqb (w_first w) s0 then (Some w, t) else (None, os)
              | [] => (None, [])
              end in
            match worker_check m k data se f anypub o with
            | None => None
            | Some pubhit =>
                match round_walk m k data ps' fails' anypub os' with
                | None => None
                | Some hits => Some (match pubhit with Some r => r :: hits | None => hits end)
                end
            end
        | _ => None
        end
    | _, _ => None
    end.

  Definition res_eqb (a b : outcome (option cand)) : bool :=
    match a, b with
    | Ok None, Ok None => true
    | Ok (Some x), Ok (Some y) => zlist_eqb x y
    | Err c, Err c' => c =? c'
    | _, _ => false
    end.

  Definition nil_b {X} (l : list X) : bool := match l with [] => true | _ => false end.

  (** the distance loop, mirroring [dist_rel]; [ninit] = initFunc calls left to account for *)
  Fixpoint dist_check (data : list A) (total : Z) (n : nat) (d : Z)
           (robs : list (list (wobs A))) (res : outcome (option cand)) (ninit : Z) : bool :=
    match n with
    | O => nil_b robs && res_eqb res (Ok None) && (ninit =? 0)
    | S n' =>
        if total <? d then nil_b robs && res_eqb res (Ok None) && (ninit =? 0)
        else
          let amount := amount_of total (Z.to_nat d) in
          if MAX_INT64 <=? amount then nil_b robs && res_eqb res (Err 3) && (ninit =? 0)
          else match robs with
               | [] => false
               | os :: rest =>
                   let cf := cfactor gomax maxconc amount in
                   let ps := pieces amount cf in
                   let fails := map (ifail d) (seqZ 0 (length ps)) in
                   let anypub := existsb w_hit os in
                   match round_walk (total - 1) (Z.to_nat d) data ps fails anypub os with
                   | None => false
                   | Some hits =>
                       if existsb (fun b : bool => b) fails then
                         nil_b rest && res_eqb res (Err 4) && (ninit =? cf)
                       else if anypub then
                         nil_b rest && (ninit =? cf) &&
                         match res with
                         | Ok (Some r) => existsb (zlist_eqb r) hits
                         | _ => false
                         end
                       else dist_check data total n' (d + 1) rest res (ninit - cf)
                   end
               end
    end.

  (** [run] from the top, mirroring [bf_run] *)
  Definition admits (data : list A) (item_size wmin wmax : Z)
             (robs : list (list (wobs A))) (res : outcome (option cand)) (ninit : Z) : bool :=
    if wmax <? wmin then nil_b robs && res_eqb res (Err 1) && (ninit =? 0)
    else
      let total := total_bits data item_size in
      let maxd := Z.min wmax total in
      if wmin =? 0 then
        if ifail 0 0 then nil_b robs && res_eqb res (Err 2) && (ninit =? 1)
        else
          match robs with
          | [w] :: rest =>
              nil_b (w_first w) && (w_n w =? 1) && Bool.eqb (w_hit w) (P data) &&
              match w_ev w with EFull [v] => eqb_list eqbA v data | _ => false end &&
              (if P data then nil_b rest && res_eqb res (Ok (Some [])) && (ninit =? 1)
               else dist_check data total (Z.to_nat (maxd - 1 + 1)) 1 rest res (ninit - 1))
          | _ => false
          end
      else dist_check data total (Z.to_nat (maxd - wmin + 1)) wmin robs res ninit.
End Check.

(** * Cases *)

(** the failing initFunc calls, as (distance, first ID of the worker's slice) *)
Definition ifail_of (fails : list (Z * Z)) (gomax maxconc total : Z) (d i : Z) : bool :=
  let amount := amount_of total (Z.to_nat d) in
  let cf := cfactor gomax maxconc amount in
  any_l (fun f => (fst f =? d) && (snd f =? fst (piece amount cf i))) fails.

(** one observed BruteForce call: settings, arguments, what came back and what the
    recording callbacks saw *)
Inductive call : Type :=
(* bruteforcer.BruteForce on []bool with ApplyBitFlipsBools *)
| KBools (gomax maxconc : Z) (data : list bool) (item_size wmin wmax : Z) (p : pred bool)
         (fails : list (Z * Z))
         (res : outcome (option cand)) (robs : list (list (wobs bool))) (ninit : Z)
         (after : list bool)
(* ... on []byte with ApplyBitFlipsBytes *)
| KBytes (gomax maxconc : Z) (data : list Z) (item_size wmin wmax : Z) (p : pred Z)
         (fails : list (Z * Z))
         (res : outcome (option cand)) (robs : list (list (wobs Z))) (ninit : Z)
         (after : list Z).

Definition check_call (c : call) : bool :=
  match c with
  | KBools gomax maxconc data isz wmin wmax p fails res robs ninit after =>
      admits flip_bools Bool.eqb (eval_pred Bool.eqb p)
             (ifail_of fails gomax maxconc (total_bits data isz)) gomax maxconc
             data isz wmin wmax robs res ninit
      && eqb_list Bool.eqb after data
  | KBytes gomax maxconc data isz wmin wmax p fails res robs ninit after =>
      admits flip_bytes Z.eqb (eval_pred Z.eqb p)
             (ifail_of fails gomax maxconc (total_bits data isz)) gomax maxconc
             data isz wmin wmax robs res ninit
      && eqb_list Z.eqb after data
  end.

Definition call_res (c : call) : outcome (option cand) :=
  match c with
  | KBools _ _ _ _ _ _ _ _ res _ _ _ => res
  | KBytes _ _ _ _ _ _ _ _ res _ _ _ => res
  end.

Inductive case : Type :=
(* one call made by the harness process (which has made many calls before) *)
| CBools (gomax maxconc : Z) (data : list bool) (item_size wmin wmax : Z) (p : pred bool)
         (fails : list (Z * Z))
         (res : outcome (option cand)) (robs : list (list (wobs bool))) (ninit : Z)
         (after : list bool)
| CBytes (gomax maxconc : Z) (data : list Z) (item_size wmin wmax : Z) (p : pred Z)
         (fails : list (Z * Z))
         (res : outcome (option cand)) (robs : list (list (wobs Z))) (ninit : Z)
         (after : list Z)
(* ALL BruteForce calls of one fresh process, in the order in which it made them:
   the first one is the first use of the package in that process (Model/BruteForceProc.v).
   Every call must be admitted by the same, state-free relation
   (Proofs/BruteForceProc.v: [fresh_check_sound]). *)
| CFresh (calls : list call).

Definition check (c : case) : bool :=
  match c with
  | CBools gomax maxconc data isz wmin wmax p fails res robs ninit after =>
      check_call (KBools gomax maxconc data isz wmin wmax p fails res robs ninit after)
  | CBytes gomax maxconc data isz wmin wmax p fails res robs ninit after =>
      check_call (KBytes gomax maxconc data isz wmin wmax p fails res robs ninit after)
  | CFresh calls => negb (nil_b calls) && all_l check_call calls
  end.

Definition mismatches := mismatches_by check.
