(** API-level model of pkg/bootflow/subsystems/trustchains/tpm: what a caller
    can do with a *TPM beyond the three wrappers TPMInit / TPMExtend /
    TPMEventLogAdd that Model/TPM.v follows (tpm.go, command.go, pcr/pcr.go).

      TPMExecute(ctx, cmd, logInfo)   any Command -- a single one or a [Commands]
                                      slice (which is a Command itself, and may
                                      contain further [Commands]); the log entry
                                      carries the cause (coordinates + action)
                                      obtained from [logInfo], zero values when
                                      [logInfo] is nil
      cmd.Apply(ctx, tpm)             applied directly, nothing is logged
                                      (pcrbruteforcer/reproduce_expected_pcr0.go)
      Commands.Apply                  sub-commands in order, stops at the first
                                      error and returns it (wrapped)
      CommandLog.Commands()           the logged commands, as a new Commands slice
      PCRValues.Set(pcr, alg, value)  overrides one bank (bounds-checked)
      Reset / DoNotUse_ResetNoInit

    The three uses /repo makes of this layer:
      cmd/exp/pcr0tool/commands/sum:   log.Commands().Apply(ctx, NewTPM())
      .../bruteforce_acm_policy_status: tpm.Reset(); tpm.TPMExecute(ctx, log.Commands(), nil)
      pcrbruteforcer:                  DoNotUse_ResetNoInit(); init.Apply; cmd.Apply ...

    The effect of a single command on PCR banks, SupportedAlgos and the event log
    is [apply] of Model/TPM.v (which neither reads nor writes the command log,
    lemma [apply_shape]); this file adds the command log with its entries, the
    composite command and the operations that bypass the log.

    Executable definitions only; proofs live in Proofs/TPMExec.v. *)
From CSS Require Import Lib.Base Model.TPM.

(** The other identifiers in the table [hsize] of Model/TPM.v, by their go-tpm
    names (tied to the source by spec/consts.json, like [ALG_SHA1] / [ALG_SHA256];
    Proofs/TPMExec.v [hsize_table] reads the table at these names). *)
Definition ALG_SHA384   : Z := 12.    (* tpm2.AlgSHA384: the first hash without a bank *)
Definition ALG_SHA512   : Z := 13.    (* tpm2.AlgSHA512 *)
Definition ALG_SHA3_256 : Z := 39.    (* tpm2.AlgSHA3_256 *)
Definition ALG_SHA3_384 : Z := 40.    (* tpm2.AlgSHA3_384 *)
Definition ALG_SHA3_512 : Z := 41.    (* tpm2.AlgSHA3_512 *)

(** A [Command]: one of CommandInit / CommandExtend / CommandEventLogAdd
    ([XOne c] with [c] a [Startup] / [Extend] / [LogAdd]; [Reset] and [ResetNoInit]
    are methods, not Commands -- [XOne Reset] is outside the Go domain, the
    harness never produces it and [xcmd_ok] excludes it), or a [Commands] slice. *)
Inductive xcmd : Type :=
| XOne (c : cmd)
| XMany (cs : list xcmd).

(** [CommandLogInfoProvider] reduced to what ends up in the log entry:
    [Some (coords, action)] are the two values the provider returned (the harness
    gives every call its own pair of identifiers), [None] is a nil provider. *)
Definition cause : Type := option (Z * Z).

(** CommandLogEntry{Command, CauseCoordinates, CauseAction} *)
Record entry : Type := mkEntry { e_cmd : xcmd; e_cause : cause }.

Record xstate : Type := mkX {
  x_algos : list Z;                  (* SupportedAlgos *)
  x_pcrs  : list (list (list Z));    (* PCRValues *)
  x_log   : list entry;              (* CommandLog *)
  x_evlog : list event               (* EventLog *)
}.

(** NewTPM(), and the state after Reset() *)
Definition xfresh : xstate := mkX supported [] [] [].
(** after DoNotUse_ResetNoInit(); also the zero value [&tpm.TPM{}] *)
Definition xblank : xstate := mkX [] [] [] [].

(** the part of the state [Command.Apply] works on *)
Definition core (s : xstate) : state := mkState (x_algos s) (x_pcrs s) [] (x_evlog s).
Definition with_core (s : xstate) (st : state) : xstate :=
  mkX (algos st) (pcrs st) (x_log s) (evlog st).

(** the single commands of a Command, in the order in which Apply reaches them *)
Fixpoint flat (x : xcmd) : list cmd :=
  match x with
  | XOne c => [c]
  | XMany cs => flat_map flat cs
  end.

Definition is_cmd (c : cmd) : bool :=
  match c with Reset | ResetNoInit => false | _ => true end.
(** inside the Go domain *)
Definition xcmd_ok (x : xcmd) : bool := forallb is_cmd (flat x).

(** [Values.Set]: the same two bounds checks as [Values.Get], then
    [s[pcrID][hashAlg] = value] *)
Definition set_value (pv : list (list (list Z))) (p a : Z) (v : list Z)
  : list (list (list Z)) * outcome unit :=
  match nthZ pv p with
  | None => (pv, Err ERR_NO_PCR)
  | Some banks =>
      match nthZ banks a with
      | None => (pv, Err ERR_NO_BANK)
      | Some _ => (updZ p (updZ a v banks) pv, Ok tt)
      end
  end.

Section WithHash.
Variable H : Z -> list Z -> list Z.

(** [Command.Apply]; for a [Commands] slice the loop of [Commands.Apply]: the
    first sub-command that does not return nil ends it, what the earlier
    sub-commands did stays *)
Fixpoint xapply (x : xcmd) (st : state) : state * outcome unit :=
  match x with
  | XOne c => apply H st c
  | XMany cs =>
      (fix go (l : list xcmd) (st : state) : state * outcome unit :=
         match l with
         | [] => (st, Ok tt)
         | y :: t =>
             let '(st1, r) := xapply y st in
             match r with
             | Ok _ => go t st1
             | _ => (st1, r)
             end
         end) cs st
  end.

(** the same loop over single commands (what [xapply] amounts to, lemma [xapply_flat]) *)
Fixpoint seq_apply (st : state) (cs : list cmd) : state * outcome unit :=
  match cs with
  | [] => (st, Ok tt)
  | c :: t =>
      let '(st1, r) := apply H st c in
      match r with
      | Ok _ => seq_apply st1 t
      | _ => (st1, r)
      end
  end.

(** * Operations on one TPM object *)
Inductive op : Type :=
| OExec (x : xcmd) (cz : cause)      (* tpm.TPMExecute(ctx, x, info) *)
| OApply (x : xcmd)                  (* x.Apply(ctx, tpm) *)
| OSet (p a : Z) (v : list Z)        (* tpm.PCRValues.Set(p, a, v) *)
| OReset                             (* tpm.Reset() *)
| OResetNoInit.                      (* tpm.DoNotUse_ResetNoInit() *)

Definition xlog_add (s : xstate) (e : entry) : xstate :=
  mkX (x_algos s) (x_pcrs s) (x_log s ++ [e]) (x_evlog s).

Definition xstep (s : xstate) (o : op) : xstate * outcome unit :=
  match o with
  | OExec x cz =>
      (* the entry is appended first, then the command is applied *)
      let s1 := xlog_add s (mkEntry x cz) in
      let '(st, r) := xapply x (core s1) in (with_core s1 st, r)
  | OApply x =>
      let '(st, r) := xapply x (core s) in (with_core s st, r)
  | OSet p a v =>
      let '(pv, r) := set_value (x_pcrs s) p a v in
      (mkX (x_algos s) pv (x_log s) (x_evlog s), r)
  | OReset => (xfresh, Ok tt)
  | OResetNoInit => (xblank, Ok tt)
  end.

Fixpoint xrun (s : xstate) (ops : list op) : xstate :=
  match ops with
  | [] => s
  | o :: t => xrun (fst (xstep s o)) t
  end.

Fixpoint xresults (s : xstate) (ops : list op) : list (outcome unit) :=
  match ops with
  | [] => []
  | o :: t => snd (xstep s o) :: xresults (fst (xstep s o)) t
  end.

(** [tpm.CommandLog.Commands()] *)
Definition log_commands (s : xstate) : list xcmd := map e_cmd (x_log s).

(** [tpm.CommandLog.Commands().Apply(ctx, tpm.NewTPM())]: the new object afterwards
    and what Apply returned *)
Definition replay_on_new (s : xstate) : state * outcome unit :=
  xapply (XMany (log_commands s)) fresh.

End WithHash.
