(** Case language of the C04 correspondence check.  The model side is
    parameterised by the accessor/table lists that tools/go2coq generated from
    the source in this very run. *)
From Coq Require Import NArith List String Bool.
From CSS Require Import Lib.Cases Lib.SymBits Lib.RegTypes Lib.RegOblig Model.Registers.
Import ListNotations.
Open Scope N_scope.

Inductive case : Type :=
(* accessor name, raw value, what the real accessor returned (booleans as 0/1) *)
| CAcc (name : string) (raw got : N)
(* register type, raw value, what Fields() returned: name, offset, size, value *)
| CFields (reg : string) (raw : N) (fs : list (string * N * N * N))
(* image length, non-zero bytes (offset, value), what ReadTXTRegisters returned: (ID, raw value) *)
| CRead (len : N) (bytes : list (N * N)) (regs : list (string * N)).

(** TXT configuration space layout: register ID, offset, size in bytes
    (constants *RegisterOffset in pkg/registers/txt_*.go and the Go type read). *)
Open Scope string_scope.
Definition txt_layout : list (string * nat * nat) := [
  ("ACM_POLICY_STATUS", 888, 8); ("ACM_STATUS", 808, 4); ("TXT.DPR", 816, 4); ("TXT.ERRORCODE", 48, 4);
  ("TXT.PUBLIC.KEY", 1024, 32); ("TXT.STS", 0, 8); ("TXT.ESTS", 8, 1); ("TXT.SPAD", 160, 8);
  ("TXT.VER.FSBIF", 256, 4); ("TXT.VER.EMIF", 512, 4); ("TXT.DIDVID", 272, 8); ("TXT.SINIT.BASE", 624, 4);
  ("TXT.SINIT.SIZE", 632, 4); ("TXT.MLE.JOIN", 656, 4); ("TXT.HEAP.BASE", 768, 4); ("TXT.HEAP.SIZE", 776, 4)
]%nat.
Close Scope string_scope.

Fixpoint byte_at (bytes : list (N * N)) (i : N) : N :=
  match bytes with
  | [] => 0
  | (k, v) :: t => if N.eqb k i then v else byte_at t i
  end.
Fixpoint le_sparse (bytes : list (N * N)) (off : N) (n : nat) : N :=
  match n with
  | O => 0
  | S n' => byte_at bytes off + 256 * le_sparse bytes (off + 1) n'
  end.
Definition read_sparse (len : N) (bytes : list (N * N)) (off n : nat) : option N :=
  if N.of_nat (off + n) <=? len then Some (le_sparse bytes (N.of_nat off) n) else None.

Fixpoint layout_find (id : string) (l : list (string * nat * nat)) : option (nat * nat) :=
  match l with
  | [] => None
  | (i, o, n) :: t => if String.eqb i id then Some (o, n) else layout_find id t
  end.

Fixpoint fields4_eqb (a b : list (string * N * N * N)) : bool :=
  match a, b with
  | [], [] => true
  | (n, o, s, v) :: a', (n', o', s', v') :: b' =>
      String.eqb n n' && N.eqb o o' && N.eqb s s' && N.eqb v v' && fields4_eqb a' b'
  | _, _ => false
  end.

Definition check (accs : list accessor) (tabs : list table) (c : case) : bool :=
  match c with
  | CAcc n raw got =>
      match find_accessor n accs with
      | Some a => N.eqb (got_at (a_val a) raw) got
      | None => false
      end
  | CFields r raw fs =>
      match find_table r tabs with
      | Some t => fields4_eqb (calc_fields raw (t_bits t) (t_fields t)) fs
      | None => false
      end
  | CRead len bytes regs =>
      Nat.eqb (List.length regs) (List.length txt_layout) &&
      forallb (fun p => match layout_find (fst p) txt_layout with
                        | Some (o, n) => match read_sparse len bytes o n with
                                         | Some v => N.eqb v (snd p)
                                         | None => false
                                         end
                        | None => false
                        end) regs
  end.

Definition mismatches_gen (accs : list accessor) (tabs : list table) := mismatches_by (check accs tabs).
