(** Case language of the C04 correspondence check.  The model side is
    parameterised by the accessor/table lists that tools/go2coq generated from
    the source in this very run. *)
From Coq Require Import NArith List String Bool.
From CSS Require Import Lib.Cases Lib.SymBits Lib.RegTypes Lib.RegOblig Model.Registers Model.RegisterHeap.
Import ListNotations.
Open Scope N_scope.

Inductive case : Type :=
(* accessor name, raw value, what the real accessor returned (booleans as 0/1) *)
| CAcc (name : string) (raw got : N)
(* register type, raw value, what Fields() returned: name, offset, size, value *)
| CFields (reg : string) (raw : N) (fs : list (string * N * N * N))
(* image length (ANY length, also shorter than the register area), non-zero bytes (offset, value),
   what ReadTXTRegisters returned: the collection (ID, raw value) in the order returned, and the
   entries of the MultiError in their order: (ID, 0 = io.EOF | 1 = io.ErrUnexpectedEOF | 2 = anything
   else); [] for a nil error *)
| CRead (len : N) (bytes : list (N * N)) (regs : list (string * N)) (errs : list (string * N))
(* a session on one process: Fields() calls interleaved with writes into the byte slices handed
   out so far.  Compact literals: byte strings are written as one number, little endian, with
   a 1 appended as most significant byte ([enc_bytes]: length and content); per operation the
   new fields as they read right after the call: offset, size, [enc_bytes] of Value, index of
   the first value handed out in this session whose memory overlaps this Value (its own index
   when it is fresh); at the end [enc_bytes] of how every value reads.  Field names are
   compared by the CFields cases. *)
| CSession (ops : list sop) (obs : list (list (N * N * N * nat))) (fin : list N)
with sop :=
| SFields (reg : string) (raw : N)
| SKey (key : N)                        (* the 32 key bytes as a little-endian number *)
| SWrite (g : nat) (v : N) (len : nat). (* len bytes, little endian *)

Definition sop_op (o : sop) : op :=
  match o with
  | SFields r x => OpFields r x
  | SKey k => OpKeyFields (le_bytes 32 k)
  | SWrite g v n => OpWrite g (le_bytes n v)
  end.
Definition enc_bytes (l : list N) : N := le_value (l ++ [1]).
Definition enc_ofield (f : ofield) : N * N * N * nat :=
  let '(_, o, s, v, a) := f in (o, s, enc_bytes v, a).

Fixpoint byte_at (bytes : list (N * N)) (i : N) : N :=
  match bytes with
  | [] => 0
  | (k, v) :: t => if N.eqb k i then v else byte_at t i
  end.
Fixpoint le_sparse (bytes : list (N * N)) (off : N) (n : nat) : N :=
  match n with
  | O => 0
  | S n' => byte_at bytes off + 256 * le_sparse bytes (off + 1) n'
  end.
Definition read_sparse (len : N) (bytes : list (N * N)) (off n : nat) : option N :=
  if N.of_nat (off + n) <=? len then Some (le_sparse bytes (N.of_nat off) n) else None.

(** The image a [CRead] case denotes: [len] bytes, zero except at the listed offsets. *)
Definition expand (len : nat) (bytes : list (N * N)) : list N :=
  map (fun i => byte_at bytes (N.of_nat i)) (seq 0 len).

(** [read_regs] evaluated on the sparse description without building the image
    ([read_regs_sparse_expand] in Proofs/Registers.v: it IS [read_regs] on [expand]). *)
Definition err_sparse (len : N) (off : nat) : read_err :=
  if len <=? N.of_nat off then ErrEOF else ErrUnexpectedEOF.
Fixpoint read_regs_sparse (layout : list (string * nat * nat)) (len : N) (bytes : list (N * N))
  : list (string * N) * list (string * read_err) :=
  match layout with
  | [] => ([], [])
  | (id, off, n) :: t =>
      let r := read_regs_sparse t len bytes in
      match read_sparse len bytes off n with
      | Some v => ((id, v) :: fst r, snd r)
      | None => (fst r, (id, err_sparse len off) :: snd r)
      end
  end.

Definition err_code (e : read_err) : N := match e with ErrEOF => 0 | ErrUnexpectedEOF => 1 end.
Definition reg_eqb (a b : string * N) : bool := String.eqb (fst a) (fst b) && N.eqb (snd a) (snd b).

Fixpoint fields4_eqb (a b : list (string * N * N * N)) : bool :=
  match a, b with
  | [], [] => true
  | (n, o, s, v) :: a', (n', o', s', v') :: b' =>
      String.eqb n n' && N.eqb o o' && N.eqb s s' && N.eqb v v' && fields4_eqb a' b'
  | _, _ => false
  end.

Definition cfield_eqb (a b : N * N * N * nat) : bool :=
  let '(o, s, v, ad) := a in
  let '(o', s', v', ad') := b in
  N.eqb o o' && N.eqb s s' && N.eqb v v' && Nat.eqb ad ad'.

Definition check (accs : list accessor) (tabs : list table) (c : case) : bool :=
  match c with
  | CAcc n raw got =>
      match find_accessor n accs with
      | Some a => N.eqb (got_at (a_val a) raw) got
      | None => false
      end
  | CFields r raw fs =>
      match find_table r tabs with
      | Some t => fields4_eqb (calc_fields raw (t_bits t) (t_fields t)) fs
      | None => false
      end
  | CRead len bytes regs errs =>
      let r := read_regs_sparse txt_layout len bytes in
      list_eqb reg_eqb (fst r) regs &&
      list_eqb reg_eqb (map (fun p => (fst p, err_code (snd p))) (snd r)) errs
  | CSession ops obs fin =>
      match run tabs empty_state (map sop_op ops) with
      | Some (o, s) => list_eqb (list_eqb cfield_eqb) (map (map enc_ofield) o) obs
                       && list_eqb N.eqb (map enc_bytes (final s)) fin
      | None => false
      end
  end.

Definition mismatches_gen (accs : list accessor) (tabs : list table) := mismatches_by (check accs tabs).
