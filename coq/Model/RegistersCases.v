(** Case language of the C04 correspondence check.  The model side is
    parameterised by the accessor/table lists that tools/go2coq generated from
    the source in this very run. *)
From Coq Require Import NArith List String Bool.
From CSS Require Import Lib.Cases Lib.SymBits Lib.RegTypes Lib.RegOblig Model.Registers Model.RegisterHeap.
Import ListNotations.
Open Scope N_scope.

Inductive case : Type :=
(* accessor name, raw value, what the real accessor returned (booleans as 0/1) *)
| CAcc (name : string) (raw got : N)
(* register type, raw value, what Fields() returned: name, offset, size, value *)
| CFields (reg : string) (raw : N) (fs : list (string * N * N * N))
(* image length, non-zero bytes (offset, value), what ReadTXTRegisters returned: (ID, raw value) *)
| CRead (len : N) (bytes : list (N * N)) (regs : list (string * N))
(* a session on one process: Fields() calls interleaved with writes into the byte slices handed
   out so far.  Compact literals: byte strings are written as one number, little endian, with
   a 1 appended as most significant byte ([enc_bytes]: length and content); per operation the
   new fields as they read right after the call: offset, size, [enc_bytes] of Value, index of
   the first value handed out in this session whose memory overlaps this Value (its own index
   when it is fresh); at the end [enc_bytes] of how every value reads.  Field names are
   compared by the CFields cases. *)
| CSession (ops : list sop) (obs : list (list (N * N * N * nat))) (fin : list N)
with sop :=
| SFields (reg : string) (raw : N)
| SKey (key : N)                        (* the 32 key bytes as a little-endian number *)
| SWrite (g : nat) (v : N) (len : nat). (* len bytes, little endian *)

Definition sop_op (o : sop) : op :=
  match o with
  | SFields r x => OpFields r x
  | SKey k => OpKeyFields (le_bytes 32 k)
  | SWrite g v n => OpWrite g (le_bytes n v)
  end.
Definition enc_bytes (l : list N) : N := le_value (l ++ [1]).
Definition enc_ofield (f : ofield) : N * N * N * nat :=
  let '(_, o, s, v, a) := f in (o, s, enc_bytes v, a).

(** TXT configuration space layout: register ID, offset, size in bytes
    (constants *RegisterOffset in pkg/registers/txt_*.go and the Go type read). *)
Open Scope string_scope.
Definition txt_layout : list (string * nat * nat) := [
  ("ACM_POLICY_STATUS", 888, 8); ("ACM_STATUS", 808, 4); ("TXT.DPR", 816, 4); ("TXT.ERRORCODE", 48, 4);
  ("TXT.PUBLIC.KEY", 1024, 32); ("TXT.STS", 0, 8); ("TXT.ESTS", 8, 1); ("TXT.SPAD", 160, 8);
  ("TXT.VER.FSBIF", 256, 4); ("TXT.VER.EMIF", 512, 4); ("TXT.DIDVID", 272, 8); ("TXT.SINIT.BASE", 624, 4);
  ("TXT.SINIT.SIZE", 632, 4); ("TXT.MLE.JOIN", 656, 4); ("TXT.HEAP.BASE", 768, 4); ("TXT.HEAP.SIZE", 776, 4)
]%nat.
Close Scope string_scope.

Fixpoint byte_at (bytes : list (N * N)) (i : N) : N :=
  match bytes with
  | [] => 0
  | (k, v) :: t => if N.eqb k i then v else byte_at t i
  end.
Fixpoint le_sparse (bytes : list (N * N)) (off : N) (n : nat) : N :=
  match n with
  | O => 0
  | S n' => byte_at bytes off + 256 * le_sparse bytes (off + 1) n'
  end.
Definition read_sparse (len : N) (bytes : list (N * N)) (off n : nat) : option N :=
  if N.of_nat (off + n) <=? len then Some (le_sparse bytes (N.of_nat off) n) else None.

Fixpoint layout_find (id : string) (l : list (string * nat * nat)) : option (nat * nat) :=
  match l with
  | [] => None
  | (i, o, n) :: t => if String.eqb i id then Some (o, n) else layout_find id t
  end.

Fixpoint fields4_eqb (a b : list (string * N * N * N)) : bool :=
  match a, b with
  | [], [] => true
  | (n, o, s, v) :: a', (n', o', s', v') :: b' =>
      String.eqb n n' && N.eqb o o' && N.eqb s s' && N.eqb v v' && fields4_eqb a' b'
  | _, _ => false
  end.

Definition cfield_eqb (a b : N * N * N * nat) : bool :=
  let '(o, s, v, ad) := a in
  let '(o', s', v', ad') := b in
  N.eqb o o' && N.eqb s s' && N.eqb v v' && Nat.eqb ad ad'.

Definition check (accs : list accessor) (tabs : list table) (c : case) : bool :=
  match c with
  | CAcc n raw got =>
      match find_accessor n accs with
      | Some a => N.eqb (got_at (a_val a) raw) got
      | None => false
      end
  | CFields r raw fs =>
      match find_table r tabs with
      | Some t => fields4_eqb (calc_fields raw (t_bits t) (t_fields t)) fs
      | None => false
      end
  | CRead len bytes regs =>
      Nat.eqb (List.length regs) (List.length txt_layout) &&
      forallb (fun p => match layout_find (fst p) txt_layout with
                        | Some (o, n) => match read_sparse len bytes o n with
                                         | Some v => N.eqb v (snd p)
                                         | None => false
                                         end
                        | None => false
                        end) regs
  | CSession ops obs fin =>
      match run tabs empty_state (map sop_op ops) with
      | Some (o, s) => list_eqb (list_eqb cfield_eqb) (map (map enc_ofield) o) obs
                       && list_eqb N.eqb (map enc_bytes (final s)) fin
      | None => false
      end
  end.

Definition mismatches_gen (accs : list accessor) (tabs : list table) := mismatches_by (check accs tabs).
