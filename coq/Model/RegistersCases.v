(** Case language of the C04 correspondence check.  The model side is
    parameterised by the accessor/table lists that tools/go2coq generated from
    the source in this very run. *)
From Coq Require Import NArith List String Bool.
From CSS Require Import Lib.Cases Lib.SymBits Lib.RegTypes Lib.RegOblig Model.Registers Model.RegisterHeap Model.RegistersDec.
Import ListNotations.
Open Scope N_scope.

Inductive case : Type :=
(* accessor name, raw value, what the real accessor returned (booleans as 0/1) *)
| CAcc (name : string) (raw got : N)
(* register type, raw value, what Fields() returned: name, offset, size, value *)
| CFields (reg : string) (raw : N) (fs : list (string * N * N * N))
(* image length (ANY length, also shorter than the register area), non-zero bytes (offset, value),
   what ReadTXTRegisters returned: the collection (ID, raw value) in the order returned, and the
   entries of the MultiError in their order: (ID, 0 = io.EOF | 1 = io.ErrUnexpectedEOF | 2 = anything
   else); [] for a nil error *)
| CRead (len : N) (bytes : list (N * N)) (regs : list (string * N)) (errs : list (string * N))
(* a session on one process: Fields() calls interleaved with writes into the byte slices handed
   out so far.  Compact literals: byte strings are written as one number, little endian, with
   a 1 appended as most significant byte ([enc_bytes]: length and content); per operation the
   new fields as they read right after the call: offset, size, [enc_bytes] of Value, index of
   the first value handed out in this session whose memory overlaps this Value (its own index
   when it is fresh); at the end [enc_bytes] of how every value reads.  Field names are
   compared by the CFields cases. *)
| CSession (ops : list sop) (obs : list (list (N * N * N * nat))) (fin : list N)
(* registers.CalculateRegisterFields(raw, size, tab) called directly on ANY table: [None] = the
   call panicked; else the fields (name, offset, size, value) and whether the result was nil *)
| CCalc (raw size : N) (tab : list (string * N)) (res : option (list (string * N * N * N) * bool))
(* a decoder of pkg/tools ([which] = ParseTXTRegs | ReadACMStatus | ReadACMPolicyStatusRaw |
   ReadBootStatusRaw) on an image of ANY length (sparse, as in CRead): the leaf fields of what it
   returned, in the order of [parse_fields] (booleans as 0/1), and the error: 0 = nil,
   1 = io.EOF, 2 = io.ErrUnexpectedEOF, 3 = anything else *)
| CTools (which : string) (len : N) (bytes : list (N * N)) (fields : list N) (err : N)
(* registers.ReadMSRRegisters with a reader that answers [rd] (MSR number -> value | None = error;
   numbers not listed fail): the collection, the IDs in the MultiError, the MSR numbers the reader
   was asked for, in call order *)
| CMsr (rd : list (N * option N)) (regs : list (string * N)) (errs : list string) (trace : list N)
(* Registers.Find(id) on a hand-built collection (IDs may repeat): raw value of what was found *)
| CFind (regs : list (string * N)) (id : string) (res : option N)
with sop :=
| SFields (reg : string) (raw : N)
| SKey (key : N)                        (* the 32 key bytes as a little-endian number *)
| SWrite (g : nat) (v : N) (len : nat). (* len bytes, little endian *)

Definition sop_op (o : sop) : op :=
  match o with
  | SFields r x => OpFields r x
  | SKey k => OpKeyFields (le_bytes 32 k)
  | SWrite g v n => OpWrite g (le_bytes n v)
  end.
Definition enc_bytes (l : list N) : N := le_value (l ++ [1]).
Definition enc_ofield (f : ofield) : N * N * N * nat :=
  let '(_, o, s, v, a) := f in (o, s, enc_bytes v, a).

Fixpoint byte_at (bytes : list (N * N)) (i : N) : N :=
  match bytes with
  | [] => 0
  | (k, v) :: t => if N.eqb k i then v else byte_at t i
  end.
Fixpoint le_sparse (bytes : list (N * N)) (off : N) (n : nat) : N :=
  match n with
  | O => 0
  | S n' => byte_at bytes off + 256 * le_sparse bytes (off + 1) n'
  end.
Definition read_sparse (len : N) (bytes : list (N * N)) (off n : nat) : option N :=
  if N.of_nat (off + n) <=? len then Some (le_sparse bytes (N.of_nat off) n) else None.

(** The image a [CRead] case denotes: [len] bytes, zero except at the listed offsets. *)
Definition expand (len : nat) (bytes : list (N * N)) : list N :=
  map (fun i => byte_at bytes (N.of_nat i)) (seq 0 len).

(** [read_regs] evaluated on the sparse description without building the image
    ([read_regs_sparse_expand] in Proofs/Registers.v: it IS [read_regs] on [expand]). *)
Definition err_sparse (len : N) (off : nat) : read_err :=
  if len <=? N.of_nat off then ErrEOF else ErrUnexpectedEOF.
Fixpoint read_regs_sparse (layout : list (string * nat * nat)) (len : N) (bytes : list (N * N))
  : list (string * N) * list (string * read_err) :=
  match layout with
  | [] => ([], [])
  | (id, off, n) :: t =>
      let r := read_regs_sparse t len bytes in
      match read_sparse len bytes off n with
      | Some v => ((id, v) :: fst r, snd r)
      | None => (fst r, (id, err_sparse len off) :: snd r)
      end
  end.

Fixpoint read_seq_sparse (layout : list (string * nat * nat)) (len : N) (bytes : list (N * N))
  : list (string * N) * option (string * read_err) :=
  match layout with
  | [] => ([], None)
  | (s, off, n) :: t =>
      match read_sparse len bytes off n with
      | Some v => let r := read_seq_sparse t len bytes in ((s, v) :: fst r, snd r)
      | None => ([], Some (s, err_sparse len off))
      end
  end.

Fixpoint rd_of (l : list (N * option N)) (a : N) : option N :=
  match l with
  | [] => None
  | (k, v) :: t => if N.eqb k a then v else rd_of t a
  end.
Definition optN_eqb (a b : option N) : bool :=
  match a, b with Some x, Some y => N.eqb x y | None, None => true | _, _ => false end.

Definition err_code (e : read_err) : N := match e with ErrEOF => 0 | ErrUnexpectedEOF => 1 end.
Definition reg_eqb (a b : string * N) : bool := String.eqb (fst a) (fst b) && N.eqb (snd a) (snd b).

Fixpoint fields4_eqb (a b : list (string * N * N * N)) : bool :=
  match a, b with
  | [], [] => true
  | (n, o, s, v) :: a', (n', o', s', v') :: b' =>
      String.eqb n n' && N.eqb o o' && N.eqb s s' && N.eqb v v' && fields4_eqb a' b'
  | _, _ => false
  end.

Definition cfield_eqb (a b : N * N * N * nat) : bool :=
  let '(o, s, v, ad) := a in
  let '(o', s', v', ad') := b in
  N.eqb o o' && N.eqb s s' && N.eqb v v' && Nat.eqb ad ad'.

Definition check (accs : list accessor) (tabs : list table) (c : case) : bool :=
  match c with
  | CAcc n raw got =>
      match find_accessor n accs with
      | Some a => N.eqb (got_at (a_val a) raw) got
      | None => false
      end
  | CFields r raw fs =>
      match find_table r tabs with
      | Some t => fields4_eqb (calc_fields raw (t_bits t) (t_fields t)) fs
      | None => false
      end
  | CRead len bytes regs errs =>
      let r := read_regs_sparse txt_layout len bytes in
      list_eqb reg_eqb (fst r) regs &&
      list_eqb reg_eqb (map (fun p => (fst p, err_code (snd p))) (snd r)) errs
  | CSession ops obs fin =>
      match run tabs empty_state (map sop_op ops) with
      | Some (o, s) => list_eqb (list_eqb cfield_eqb) (map (map enc_ofield) o) obs
                       && list_eqb N.eqb (map enc_bytes (final s)) fin
      | None => false
      end
  | CCalc raw size tab res =>
      match calc_go raw size tab, res with
      | None, None => true
      | Some (fs, isnil), Some (fs', isnil') => fields4_eqb fs fs' && Bool.eqb isnil isnil'
      | _, _ => false
      end
  | CTools which len bytes fields err =>
      match tools_decoder which with
      | None => false
      | Some (lay, flds) =>
          let r := read_seq_sparse lay len bytes in
          list_eqb optN_eqb (tools_fields accs flds (fst r)) (map Some fields) &&
          N.eqb (match snd r with None => 0 | Some (_, e) => 1 + err_code e end) err
      end
  | CMsr rd regs errs trace =>
      let r := read_msrs (rd_of rd) in
      list_eqb reg_eqb (fst r) regs && list_eqb String.eqb (snd r) errs &&
      list_eqb N.eqb (msr_trace msr_layout) trace
  | CFind regs id res => optN_eqb (find_reg id regs) res
  end.

Definition mismatches_gen (accs : list accessor) (tabs : list table) := mismatches_by (check accs tabs).
