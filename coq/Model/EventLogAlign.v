(** Model of pcrbruteforcer.ReproduceEventLog
    (pkg/bootflow/subsystems/trustchains/tpm/pcrbruteforcer/{reproduce_event_log.go,
    reproduce_event_log_result.go, analyze_unexpected_log_entry.go} and the two
    ACM_POLICY_STATUS search strategies of reproduce_expected_pcr0.go).
    Executable definitions only; proofs live in Proofs/EventLogAlign.v.

    What is modelled, in the order of the Go code:
    - [sim_align]      alignLogAndMeasurements: the simulated TPM command log is cut
                       into steps, the PCR0 Extend-s / EventLogAdd-s of the chosen bank are
                       paired per step (error classes and index panics included);
    - [filterEvents]   (Model/EventLog.v, C12) the recorded log restricted to PCR0 / bank;
    - [distance]       eventAndMeasurementsDistance, in uint64 arithmetic, with its two
                       "should never happen" panics;
    - [choose_bitmaps] bruteForceAlignedEventLogs inside [reproduce]: the early return on
                       distance 0; the outcome of the brute-force phases that follow (two
                       disable bitmaps) is an input of [reproduce] ([oracle]);
    - [search_results] (end of the file) those phases at set level: the set of
                       (distance, bitmaps) results they may leave - minimal distance over
                       the space the nested BruteForce runs enumerate; the case checker
                       demands that the bitmaps of every returned result are among them;
    - [align_logs]     alignLogs: defensive count check and the interleaving loop;
    - [walk_meas]      the second half of alignLogsAndMeasurements (re-attaching
                       measurements by pointer identity of the events);
    - [result_loop]    the loop of ReproduceEventLog: status per pair, PCR0_DATA repair
                       ([repair]: linear decrement over the goroutine blocks, then bit-flip
                       combinations), issues, corrected register, and the places of
                       newLogEntryExplainer where a panic is possible ([explain]:
                       reference look-up and range reads of rangesToChunks /
                       tryMeasurement, as repaired by e99f02a and dbffb11);
    - [combine]        ReproduceEventLogResult.CombineAsEventLog.

    Hashing: nothing here computes SHA.  [Hp m v] stands for "hash, with the bank's
    algorithm, of the raw bytes of measurement [m] after its first 8 bytes were
    replaced by the little-endian encoding of [v]" (what the two search strategies
    evaluate).  The digests of simulated and recorded events are plain byte lists. *)
From CSS Require Import Lib.Base Model.EventLog.

(** * Vocabulary *)

Definition REF_IMAGE : Z := 0.  (* *biosimage.BIOSImage *)
Definition REF_RAW   : Z := 1.  (* types.RawBytes *)
Definition REF_TXT   : Z := 2.  (* *txtpublic.TXTPublic *)

(** a [types.Reference]: kind of artifact and its ranges (Offset, Length) *)
Record ref := mkRef { rf_kind : Z; rf_ranges : list (Z * Z) }.

(** a [*types.MeasuredData]: [m_id] its index in State.MeasuredData (pointer identity),
    [m_first8] the little-endian value of the first 8 raw bytes, [m_refs] Data.References *)
Record meas := mkMeas { m_id : Z; m_first8 : Z; m_refs : list ref }.

(** a [*tpm.EventLogEntry] of the simulated TPM; [s_id] = index in tpm.EventLog (pointer identity) *)
Record sim_ev := mkSim { s_id : Z; s_type : Z; s_digest : list Z }.

(** one entry of tpm.CommandLog as alignLogAndMeasurements sees it: does it start a new
    step ([!coords.IsSameStep(prevCoords)]), and the command *)
Inductive scmd :=
| SExtend (pcr alg : Z) (m : option meas)   (* m = measuredDataMap[CauseAction], may be nil *)
| SLogAdd (pcr alg : Z)
| SOther.

Definition E_NIL_LOG : Z := 20.       (* "TPM EventLog is not provided" *)
Definition E_SIM : Z := 21.           (* alignLogAndMeasurements errors *)
Definition E_COUNTS : Z := 22.        (* "amounts of the aligned expected and calculated events are not equal" *)
Definition E_DIST0_LEN : Z := 23.     (* "distance miscalculation?" *)
Definition E_BOTH_NIL : Z := 24.      (* "not supported: ... a measurement has no event log entry associated" *)

(** * alignLogAndMeasurements *)

Definition step_acc : Type := (list (option meas) * list sim_ev)%type.

(** The loop over the command log.  [cur] is [stepResults[stepIdx]] ([None] while
    stepIdx = -1: indexing it panics), [done] the earlier steps, [evlog] the not yet
    consumed part of tpm.EventLog. *)
Fixpoint sim_steps (pcr alg : Z) (cmds : list (bool * scmd)) (evlog : list sim_ev)
         (cur : option step_acc) (done : list step_acc)
  : outcome (list step_acc * list sim_ev) :=
  match cmds with
  | [] => Ok (match cur with Some c => done ++ [c] | None => done end, evlog)
  | (newstep, c) :: t =>
      let '(cur1, done1) :=
        if newstep
        then (Some (([], []) : step_acc), match cur with Some x => done ++ [x] | None => done end)
        else (cur, done) in
      match cur1 with
      | None => Panic (* stepResults[-1] *)
      | Some (ms, evs) =>
          match c with
          | SExtend p a m =>
              if negb (p =? pcr) || negb (a =? alg) then sim_steps pcr alg t evlog cur1 done1
              else sim_steps pcr alg t evlog (Some (ms ++ [m], evs)) done1
          | SLogAdd p a =>
              match evlog with
              | [] => Panic (* tpmEventLog[tpmEventLogIdx] *)
              | e :: evlog' =>
                  if negb (p =? pcr) || negb (a =? alg) then sim_steps pcr alg t evlog' cur1 done1
                  else sim_steps pcr alg t evlog' (Some (ms, evs ++ [e])) done1
              end
          | SOther => sim_steps pcr alg t evlog cur1 done1
          end
      end
  end.

Fixpoint sim_collect (steps : list step_acc) : outcome (list (option meas * sim_ev)) :=
  match steps with
  | [] => Ok []
  | (ms, evs) :: t =>
      match ms, evs with
      | None :: _, _ => Err E_SIM                                (* stepMeasurements[0] == nil *)
      | [], [] => sim_collect t
      | _ :: _, [] => Err E_SIM                                  (* measurements without EventLog *)
      | [], _ :: _ => bind (sim_collect t) (fun r => Ok (map (fun e => (None, e)) evs ++ r))
      | _ :: _, _ :: _ =>
          if negb (length ms =? length evs)%nat then Err E_SIM
          else bind (sim_collect t) (fun r => Ok (combine ms evs ++ r))
      end
  end.

Definition sim_align (cmds : list (bool * scmd)) (evlog : list sim_ev) (pcr alg : Z)
  : outcome (list (option meas * sim_ev)) :=
  bind (sim_steps pcr alg cmds evlog None []) (fun '(steps, rest) =>
  match rest with
  | _ :: _ => Err E_SIM                                          (* tpmEventLogIdx != len(tpmEventLog) *)
  | [] => sim_collect steps
  end).

(** * eventAndMeasurementsDistance (uint64) *)

Definition BIGN : Z := 4294967295. (* math.MaxUint32 *)

Definition pair_cost (c : sim_ev) (e : event) : Z :=
  (if zlist_eqb (ev_digest_bytes e) (s_digest c) then 0 else 2 * BIGN - 1)
  + (if ev_type e =? s_type c then 0 else 2).

(** The bitmaps travel zipped with the lists ([(skipped, x)]); in the Go code they are
    slices of exactly the lengths of the lists (one [make]). *)
Fixpoint distance (cs : list (bool * sim_ev)) : list (bool * event) -> Z -> outcome Z :=
  fix inner (es : list (bool * event)) (acc : Z) : outcome Z :=
    match cs with
    | (true, _) :: cs' => distance cs' es (wrap64 (acc + BIGN))
    | (false, c) :: cs' =>
        match es with
        | (true, _) :: es' => inner es' (wrap64 (acc + BIGN))
        | (false, e) :: es' =>
            if negb (length (ev_digest_bytes e) =? length (s_digest c))%nat then Panic
            else distance cs' es' (wrap64 (acc + pair_cost c e))
        | [] => Panic (* idxE >= len(eventsExpected) *)
        end
    | [] =>
        match es with
        | (true, _) :: es' => inner es' (wrap64 (acc + BIGN))
        | (false, _) :: _ => Panic (* idxC >= len(eventsCalculated) *)
        | [] => Ok acc
        end
    end.

Definition flag {A} (bm : list bool) (l : list A) : list (bool * A) := combine bm l.
Definition all_false {A} (l : list A) : list bool := repeat false (length l).
Definition count_true (l : list bool) : nat := length (filter (fun b => b) l).

(** * bruteForceAlignedEventLogs: early return; the search result otherwise *)

(** [oracle] = (disabledEvents, disabledMeasurements) as the three search phases left them.
    Returns the bitmaps and the distance handed to alignLogs. *)
Definition choose_bitmaps (es : list event) (cs : list sim_ev) (oracle : list bool * list bool)
  : outcome (list bool * list bool * option Z) :=
  let searched :=
    (* curDistance of the search = distance of the bitmaps it kept (None: not computable,
       i.e. the bitmaps are not balanced; the Go search never returns such) *)
    let '(de, dc) := oracle in
    Ok (de, dc, match distance (flag dc cs) (flag de es) 0 with Ok d => Some d | _ => None end) in
  if (length es =? length cs)%nat then
    bind (distance (flag (all_false cs) cs) (flag (all_false es) es) 0) (fun d =>
    if d =? 0 then Ok (all_false es, all_false cs, Some 0) else searched)
  else searched.

(** * alignLogs *)

Definition apair : Type := (option sim_ev * option event)%type.

Fixpoint interleave (es : list (bool * event)) : list (bool * sim_ev) -> outcome (list apair) :=
  fix inner (cs : list (bool * sim_ev)) : outcome (list apair) :=
    match es with
    | (true, e) :: es' => bind (interleave es' cs) (fun r => Ok ((None, Some e) :: r))
    | (false, e) :: es' =>
        match cs with
        | (true, c) :: cs' => bind (inner cs') (fun r => Ok ((Some c, None) :: r))
        | (false, c) :: cs' => bind (interleave es' cs') (fun r => Ok ((Some c, Some e) :: r))
        | [] => Panic (* _eventsCalculated[idxC] *)
        end
    | [] =>
        match cs with
        | (true, c) :: cs' => bind (inner cs') (fun r => Ok ((Some c, None) :: r))
        | (false, _) :: _ => Panic (* _eventsExpected[idxE] *)
        | [] => Ok []
        end
    end.

Definition zip_pairs (es : list event) (cs : list sim_ev) : list apair :=
  map (fun '(c, e) => (Some c, Some e)) (combine cs es).

Definition align_logs (es : list event) (cs : list sim_ev) (oracle : list bool * list bool)
  : outcome (list apair) :=
  bind (choose_bitmaps es cs oracle) (fun '(de, dc, dist) =>
  match dist with
  | Some 0 =>
      if negb (length es =? length cs)%nat then Err E_DIST0_LEN else Ok (zip_pairs es cs)
  | _ =>
      if negb (length de =? length es)%nat || negb (length dc =? length cs)%nat then Panic
      else if negb (length es - count_true de =? length cs - count_true dc)%nat then Err E_COUNTS
      else interleave (flag de es) (flag dc cs)
  end).

(** * alignLogsAndMeasurements, second half *)

Definition same_ev (a : option sim_ev) (u : sim_ev) : bool :=
  match a with Some s => s_id s =? s_id u | None => false end.

Fixpoint walk_meas (aligned : list (option sim_ev)) (unaligned : list (option meas * sim_ev))
  : list (option meas) :=
  match aligned with
  | [] => []
  | a :: t =>
      match unaligned with
      | [] => None :: walk_meas t []
      | (m, u) :: us => if same_ev a u then m :: walk_meas t us else None :: walk_meas t unaligned
      end
  end.

Record aentry := mkA { a_meas : option meas; a_calc : option sim_ev; a_exp : option event }.

Definition attach (sims : list (option meas * sim_ev)) (pairs : list apair) : list aentry :=
  let ms := if (length sims =? length pairs)%nat then map fst sims
            else walk_meas (map fst pairs) sims in
  map (fun '(m, (c, e)) => mkA m c e) (combine ms pairs).

(** * PCR0_DATA repair *)

Definition ACM_POLICY_STATUS_OFFSET : Z := 888. (* 0x378 *)

Definition is_acm_ref (r : ref) : bool :=
  match rf_ranges r with
  | [(o, l)] => (o =? ACM_POLICY_STATUS_OFFSET) && (l =? 8)
  | _ => false
  end.

(** getACMPolicyStatusRefFromMeasurement(m, regs) != nil, for a non-nil [m] *)
Definition is_pcr0_meas (m : meas) : bool :=
  match filter (fun r => rf_kind r =? REF_TXT) (m_refs m) with
  | [r] => is_acm_ref r
  | _ => false
  end.

(** isPCRxDataMeasurement = getACMPolicyStatusRefFromMeasurement(m, regs) != nil: nil when
    there are no TXT registers or no measurement ([txtPublicRegisters == nil || m == nil];
    before fix 60718db a nil [m] with registers present was dereferenced). *)
Definition is_pcrx (regs_present : bool) (m : option meas) : bool :=
  regs_present && match m with
                  | None => false
                  | Some mm => is_pcr0_meas mm
                  end.

Section Repair.
Variable Hp : meas -> Z -> list Z.

(** linearSearch.Process: [P] = GOMAXPROCS goroutines, goroutine [i] tries the
    decrements of its block; the last block ends at [limit], and so does every
    block that would reach beyond it (since the repair 92fa0d4 in /repo: before
    it, with P > limit + 1, blocks of size 1 went on beyond the limit); a block
    that starts at or beyond the limit is empty. *)
Definition lin_blocks (P limit : Z) : list (Z * Z) :=
  let bs := Z.max 1 (Z.quot limit P) in
  map (fun i => (i * bs, if (i =? P - 1) || (limit <? (i + 1) * bs) then limit else (i + 1) * bs))
      (seqZ 0 (Z.to_nat P)).

Definition block_cands (b : Z * Z) : list Z := seqZ (fst b) (Z.to_nat (snd b - fst b)).

Definition lin_cands (P limit : Z) : list Z := flat_map block_cands (lin_blocks P limit).

Definition linear_search (P limit : Z) (m : meas) (digest : list Z) : option Z :=
  option_map (fun d => wrap64 (m_first8 m - d))
    (find (fun d => zlist_eqb (Hp m (wrap64 (m_first8 m - d))) digest) (lin_cands P limit)).

(** combinatorialSearch.Process = bruteforcer.BruteForce over the 64 bits of the
    register, Hamming distance 0..limit (limit is converted to uint64 and capped at 64).
    Set-level model: the candidates of distance k are all k-subsets of the bits. *)
Fixpoint masks (bits : list Z) (k : nat) : list Z :=
  match k with
  | O => [0]
  | S k' =>
      match bits with
      | [] => []
      | b :: t => map (fun x => Z.lor (Z.shiftl 1 b) x) (masks t k') ++ masks t k
      end
  end.

Definition comb_limit (limit : Z) : nat := if limit <? 0 then 64%nat else Z.to_nat (Z.min limit 64).

Definition comb_cands (limit : Z) : list Z :=
  flat_map (masks (seqZ 0 64)) (seq 0 (S (comb_limit limit))).

Definition comb_search (limit : Z) (m : meas) (digest : list Z) : option Z :=
  option_map (fun x => Z.lxor (m_first8 m) x)
    (find (fun x => zlist_eqb (Hp m (Z.lxor (m_first8 m) x)) digest) (comb_cands limit)).

Record settings := mkSt {
  st_comb_enabled : bool;   (* EnableACMPolicyCombinatorialStrategy *)
  st_comb_limit : Z;        (* MaxACMPolicyCombinatorialDistance *)
  st_lin_limit : Z;         (* MaxACMPolicyLinearDistance *)
  st_max_disabled : Z;      (* DisabledEventsMaxDistance (used by the search only) *)
  st_guesses : Z            (* MaxDigestRangeGuesses (used by the explainer only) *)
}.

(** bruteForceACMPolicyStatus for a PCR0_DATA measurement *)
Definition repair (P : Z) (st : settings) (m : meas) (digest : list Z) : option Z :=
  match linear_search P (st_lin_limit st) m digest with
  | Some r => Some r
  | None => if st_comb_enabled st then comb_search (st_comb_limit st) m digest else None
  end.

(** * newLogEntryExplainer: the parts that could panic *)

Inductive chunk := ChRaw | ChImage (phys : bool) (off len : Z).

(** the offset inside the image Reference.RawBytes reads at: PhysMemMapper.Resolve for a
    physical address ([Offset - 0x100000000 + Size()], uint64), the offset itself otherwise *)
Definition image_offset (isz : Z) (phys : bool) (off : Z) : Z :=
  if phys then wrap64 (off - PHYS_ADDR_BASE + isz) else off.

(** rangesToChunks' own test of a non-empty range (fix dbffb11), in uint64:
    [imageOffset := r.Offset; if phys { imageOffset -= PhysAddrBase - image.Size() };
     skip if imageOffset > image.Size() || r.Length > image.Size()-imageOffset] *)
Definition range_fits (isz : Z) (phys : bool) (off len : Z) : bool :=
  let o := if phys then wrap64 (off - wrap64 (PHYS_ADDR_BASE - isz)) else off in
  (o <=? isz) && (len <=? isz - o).

(** rangesToChunks.  Per parsed range: the reference [len(chunks)] of the measurement is
    looked up only when there is one (fix e99f02a: [expectedMeasurement != nil &&
    len(chunks) < len(References)]; before, the look-up panicked past the end); a range with
    a length makes an image chunk when it fits the image and is skipped (with a warning)
    when it does not (fix dbffb11; before, the chunk was made and reading it panicked); an
    empty range makes a chunk only over a hard-coded reference. *)
Fixpoint ranges_to_chunks (isz : Z) (m : option meas) (ranges : list (Z * Z)) (chunks : list chunk)
  : list chunk :=
  match ranges with
  | [] => chunks
  | (off, len) :: t =>
      let raw := match m with
                 | None => false
                 | Some mm =>
                     match nth_error (m_refs mm) (length chunks) with
                     | None => false
                     | Some r => rf_kind r =? REF_RAW
                     end
                 end in
      if 0 <? len then
        if range_fits isz (is_phys_addr off isz) off len
        then ranges_to_chunks isz m t (chunks ++ [ChImage (is_phys_addr off isz) off len])
        else ranges_to_chunks isz m t chunks
      else if raw then ranges_to_chunks isz m t (chunks ++ [ChRaw])
      else ranges_to_chunks isz m t chunks
  end.

(** Reference.RawBytes on an image chunk panics unless the whole range can be read *)
Definition chunk_readable (isz : Z) (c : chunk) : bool :=
  match c with
  | ChRaw => true
  | ChImage phys off len => (image_offset isz phys off + len <=? isz)
  end.

(** tryMeasurement reads every chunk (MeasuredData.ConvertedBytes): a chunk that cannot be
    read is a panic.  (That none is left is a theorem, not a part of the model.) *)
Definition explain (isz : Z) (m : option meas) (e : event) : outcome unit :=
  match parse_event_data e isz with
  | Ok p =>
      if forallb (chunk_readable isz) (ranges_to_chunks isz m (pr_ranges p) []) then Ok tt else Panic
  | Err _ => Ok tt
  | Panic => Panic
  | OutOfFuel => OutOfFuel
  end.

(** * The loop of ReproduceEventLog *)

Inductive status := StMatch | StMismatch | StUnexpected | StMissing.

Record rentry := mkR {
  re_meas : option meas; re_calc : option sim_ev; re_exp : option event; re_status : status }.

Inductive issue :=
| IUnexpected (idx : Z)    (* IssueUnexpectedLogEntry *)
| IMissing                 (* "missing entry (for measurement ...) in EventLog" *)
| IRepairFail              (* "PCR0_DATA measurement does not match ... unable to brute force" *)
| IRepaired                (* "changed ACM_POLICY_STATUS from ... to ..." *)
| IMismatch (idx : Z).     (* IssueLoggedDigestDoesNotMatch *)

Definition result : Type := (list rentry * list issue * option Z)%type.

Definition push (r : rentry) (is : list issue) (o : outcome result) : outcome result :=
  bind o (fun '(rs, iss, u) => Ok (r :: rs, is ++ iss, u)).

(** [upd] is updatedACMPolicyStatusValue so far.  The result is assembled on the way
    back, so the register of the LAST repaired entry wins, as in the Go loop. *)
Fixpoint result_loop (P isz : Z) (regs : bool) (st : settings) (idx : Z) (l : list aentry) (upd : option Z)
  : outcome result :=
  match l with
  | [] => Ok ([], [], upd)
  | a :: t =>
      match a_calc a, a_exp a with
      | None, Some e =>
          bind (explain isz (a_meas a) e) (fun _ =>
          push (mkR None None (Some e) StUnexpected) [IUnexpected idx]
               (result_loop P isz regs st (idx + 1) t upd))
      | Some c, None =>
          push (mkR (a_meas a) (Some c) None StMissing) [IMissing]
               (result_loop P isz regs st (idx + 1) t upd)
      | None, None => Err E_BOTH_NIL
      | Some c, Some e =>
          if zlist_eqb (ev_digest_bytes e) (s_digest c) then
            push (mkR (a_meas a) (Some c) (Some e) StMatch) []
                 (result_loop P isz regs st (idx + 1) t upd)
          else
            match is_pcrx regs (a_meas a), a_meas a with
            | true, Some m =>
                match repair P st m (ev_digest_bytes e) with
                | Some r =>
                    push (mkR (a_meas a) (Some c) (Some e) StMatch) [IRepaired]
                         (result_loop P isz regs st (idx + 1) t (Some r))
                | None =>
                    push (mkR (a_meas a) (Some c) (Some e) StMismatch) [IRepairFail]
                         (result_loop P isz regs st (idx + 1) t upd)
                end
            | _, _ =>
                bind (explain isz (a_meas a) e) (fun _ =>
                push (mkR (a_meas a) (Some c) (Some e) StMismatch) [IMismatch idx]
                     (result_loop P isz regs st (idx + 1) t upd))
            end
      end
  end.

(** * ReproduceEventLog *)

Definition reproduce (P isz : Z) (regs : bool) (cmds : list (bool * scmd)) (evlog : list sim_ev)
           (recorded : option (list event)) (alg : Z) (st : settings)
           (oracle : list bool * list bool) : outcome result :=
  match recorded with
  | None => Err E_NIL_LOG
  | Some log =>
      bind (sim_align cmds evlog 0 alg) (fun sims =>
      bind (filterEvents log 0 alg) (fun es =>
      bind (align_logs es (map snd sims) oracle) (fun pairs =>
      result_loop P isz regs st 0 (attach sims pairs) None)))
  end.

End Repair.

(** * CombineAsEventLog *)

Inductive centry := CSim (c : sim_ev) | CRec (e : event).

(** [*e.Calculated] / [convertTPMEventLogEntry(e.Expected)] dereference their pointers *)
Fixpoint combine_log (rs : list rentry) : outcome (list centry) :=
  match rs with
  | [] => Ok []
  | r :: t =>
      bind (match re_status r, re_calc r, re_exp r with
            | StMatch, Some c, _ => Ok [CSim c]
            | StMismatch, Some c, Some e => Ok [CSim c; CRec e]
            | StUnexpected, _, Some e => Ok [CRec e]
            | StMissing, Some c, _ => Ok [CSim c]
            | _, _, _ => Panic
            end) (fun h => bind (combine_log t) (fun r' => Ok (h ++ r')))
  end.

(** * Specification vocabulary (used by the theorems and the case checker) *)

Fixpoint somes {A} (l : list (option A)) : list A :=
  match l with
  | [] => []
  | Some x :: t => x :: somes t
  | None :: t => somes t
  end.

(** the two projections of a result: recorded side and simulated side, gaps dropped *)
Definition rec_side (rs : list rentry) : list event := somes (map re_exp rs).
Definition sim_side (rs : list rentry) : list sim_ev := somes (map re_calc rs).

Definition digests_equal (c : sim_ev) (e : event) : bool := zlist_eqb (ev_digest_bytes e) (s_digest c).

(** bitmaps as the search produces them: right lengths, balanced counts *)
Definition balanced (es : list event) (cs : list sim_ev) (oracle : list bool * list bool) : Prop :=
  length (fst oracle) = length es /\ length (snd oracle) = length cs /\
  (length es - count_true (fst oracle) = length cs - count_true (snd oracle))%nat.

(** pairwise same type and digest *)
Fixpoint identical (es : list event) (cs : list sim_ev) : bool :=
  match es, cs with
  | [], [] => true
  | e :: es', c :: cs' => digests_equal c e && (ev_type e =? s_type c) && identical es' cs'
  | _, _ => false
  end.

(** * bruteForceAlignedEventLogs at set level (the phases that follow the early return)

    What the search may return, as a SET of (distance, bitmaps) results: the nested
    bruteforcer.BruteForce runs are modelled by the sets of bitmaps they enumerate (all
    bitmaps at a given Hamming distance from the start value; partition / schedule of the
    goroutines are property C07's), and "keep the candidate with the smallest distance" by
    "any candidate of minimal distance" (which one of several equally distant candidates a
    run keeps depends on the goroutine schedule).
    - first phase ("align the amounts"): exactly |amount difference| entries of the longer
      side are disabled, the other bitmap is all-false;
    - second phase ("align the content"): the recorded bitmap is varied by up to
      DisabledEventsMaxDistance flips around the first-phase value; for each, exactly as
      many further simulated entries as the balance of the amounts demands are disabled on
      top of the first-phase ones (a candidate that un-disables one is skipped by the count
      check of the innermost callback). *)

Fixpoint flips (k : nat) (base : list bool) : list (list bool) :=
  match base with
  | [] => match k with O => [[]] | S _ => [] end
  | b :: t =>
      map (cons b) (flips k t)
      ++ match k with O => [] | S k' => map (cons (negb b)) (flips k' t) end
  end.

Definition flips_upto (n : nat) (base : list bool) : list (list bool) :=
  flat_map (fun k => flips k base) (seq 0 (S n)).

Definition bitmaps : Type := (list bool * list bool)%type.   (* (recorded, simulated) *)

Definition bm_dist (es : list event) (cs : list sim_ev) (p : bitmaps) : option Z :=
  match distance (flag (snd p) cs) (flag (fst p) es) 0 with Ok d => Some d | _ => None end.

Definition scored (es : list event) (cs : list sim_ev) (l : list bitmaps) : list (Z * bitmaps) :=
  flat_map (fun p => match bm_dist es cs p with Some d => [(d, p)] | None => [] end) l.

Definition min_of (l : list Z) : option Z :=
  match l with [] => None | x :: t => Some (fold_left Z.min t x) end.

Definition argmins {X} (l : list (Z * X)) : list (Z * X) :=
  match min_of (map fst l) with
  | None => []
  | Some m => filter (fun x => fst x =? m) l
  end.

Definition amount_diff (es : list event) (cs : list sim_ev) : Z :=
  Z.of_nat (length es) - Z.of_nat (length cs).

Definition phase1_cands (es : list event) (cs : list sim_ev) : list bitmaps :=
  let d := amount_diff es cs in
  if d =? 0 then [(all_false es, all_false cs)]
  else if d <? 0 then map (fun m => (all_false es, m)) (flips (Z.to_nat (- d)) (all_false cs))
  else map (fun e => (e, all_false cs)) (flips (Z.to_nat d) (all_false es)).

Definition bm_balanced (es : list event) (cs : list sim_ev) (p : bitmaps) : bool :=
  Z.of_nat (count_true (fst p)) - Z.of_nat (count_true (snd p)) =? amount_diff es cs.

Definition phase2_space (es : list event) (cs : list sim_ev) (maxdist : Z) (p1 : bitmaps) : list bitmaps :=
  flat_map (fun e =>
    let bd := Z.of_nat (count_true e) - Z.of_nat (count_true (snd p1)) - amount_diff es cs in
    if bd <? 0 then []
    else filter (bm_balanced es cs) (map (fun m => (e, m)) (flips (Z.to_nat bd) (snd p1))))
  (flips_upto (Z.to_nat (Z.min maxdist (Z.of_nat (length es)))) (fst p1)).

Definition search_results (es : list event) (cs : list sim_ev) (maxdist : Z) : list (Z * bitmaps) :=
  flat_map (fun p1 => argmins (scored es cs (phase2_space es cs maxdist (snd p1))))
           (argmins (scored es cs (phase1_cands es cs))).

(** the documented rule the distance metric implements: a pair of events that agree in
    neither type nor digest costs more than leaving both unpaired *)
Definition unrelated (c : sim_ev) (e : event) : bool :=
  negb (digests_equal c e) && negb (ev_type e =? s_type c).
