#!/usr/bin/env python3
"""Regenerates seeded/RESULTS.md from seeded/*/meta.json."""
import glob, json, os
ROOT = os.path.dirname(os.path.dirname(os.path.abspath(__file__)))
rows = []
for p in sorted(glob.glob(os.path.join(ROOT, "seeded", "*", "meta.json"))):
    m = json.load(open(p))
    c = m.get("check_result", {})
    first = c.get("violation_line", "")
    rc = m.get("recheck") or {}
    if rc and "error" not in rc:
        c = dict(c, violation_line=rc.get("violation_line", ""), failing_input=rc.get("failing_input", ""))
    vl = c.get("violation_line", "")
    verdict = "MISSED" if not vl else ("caught, no failing input" if "no-failing-input-found" in vl else "caught with failing input")
    if rc and "error" not in rc:
        f1 = "missed" if not first else ("caught, no failing input" if "no-failing-input-found" in first else "caught with failing input")
        if f1 != verdict.lower().replace("MISSED".lower(), "missed"):
            verdict += " (first run, before strengthening: %s)" % f1
    elif m.get("after_strengthening"):
        verdict += " (after strengthening: %s)" % m["after_strengthening"]
    need = " ".join((m.get("needs_to_manifest") or "").split())[:260]
    rows.append((m["id"], m["breaks_property"], verdict, (c.get("failing_input") or "")[:200].replace("|", "/"), need.replace("|", "/")))
with open(os.path.join(ROOT, "seeded", "RESULTS.md"), "w") as f:
    f.write("# Seeded changes and what the checks said\n\n")
    f.write("Each change was written by a fresh sub-agent that saw only the property text and a private worktree;\n"
            "confirmed by `lib/seedtest.py` (demo passes on the unchanged tree, change builds, the 352 tests pass,\n"
            "demo fails with the change) and then run against `./check <id>` (quick tier unless noted).\n\n")
    f.write("| seeded change | property | check verdict | first failing input reported | what it needs to manifest |\n|---|---|---|---|---|\n")
    for r in rows:
        f.write("| %s | %s | %s | %s | %s |\n" % r)
    n = len(rows); c = sum(1 for r in rows if r[2].startswith("caught")); ci = sum(1 for r in rows if r[2].startswith("caught with"))
    f.write("\n%d changes; %d caught (%d with a concrete failing input), %d missed.\n" % (n, c, ci, n - c))
print("seeded/RESULTS.md: %d rows" % len(rows))
