#!/usr/bin/env python3
"""Re-runs the property's check against stored seeded changes on the CURRENT /repo HEAD and /verif:
usage: lib/seedrecheck.py <seed id> [...]   (or --all [-j N])
For each: scratch worktree of /repo HEAD, apply seeded/<id>/patch.diff, VERIF_REPO=<wt> ./check <prop>,
record the outcome in seeded/<id>/meta.json under "recheck" (never touches /repo, evidence/ or the patch)."""
import hashlib, json, os, shutil, subprocess, sys, time
from concurrent.futures import ThreadPoolExecutor
ROOT = os.path.dirname(os.path.dirname(os.path.abspath(__file__)))
ENV = dict(os.environ, GOFLAGS="-mod=mod", GOPROXY="off", GOSUMDB="off", GOTOOLCHAIN="local")

def sh(cmd, cwd=None, env=None):
    p = subprocess.run(cmd, cwd=cwd, env=env or ENV, stdout=subprocess.PIPE, stderr=subprocess.STDOUT, text=True, errors="replace")
    return p.returncode, p.stdout

def one(sid):
    sd = os.path.join(ROOT, "seeded", sid)
    meta = json.load(open(os.path.join(sd, "meta.json")))
    pid = meta["breaks_property"]
    wt = "/tmp/seedrc-%s" % sid
    sh(["git", "-C", "/repo", "worktree", "remove", "--force", wt])
    sh(["git", "-C", "/repo", "worktree", "add", "--detach", wt, "HEAD"])
    res = {"repo_head": sh(["git", "-C", "/repo", "rev-parse", "--short", "HEAD"])[1].strip(),
           "verif_head": sh(["git", "-C", ROOT, "rev-parse", "--short", "HEAD"])[1].strip()}
    try:
        rc, out = sh(["git", "apply", os.path.join(sd, "patch.diff")], cwd=wt)
        if rc != 0:
            res["error"] = "patch does not apply to the current /repo HEAD: " + out[-200:]
        else:
            rc, out = sh(["go", "build", "./..."], cwd=wt)
            res["build_exit"] = rc
            t0 = time.time()
            rc, out = sh([os.path.join(ROOT, "check"), pid], cwd=ROOT, env=dict(ENV, VERIF_REPO=wt))
            vl = [l for l in out.splitlines() if l.startswith("VIOLATION")]
            fl = [l.strip() for l in out.splitlines() if "failing input:" in l or l.strip().startswith("broken:")]
            res.update(check_exit=rc, wall_s=round(time.time() - t0, 1), violation_line=vl[0] if vl else "",
                       failing_input=fl[0][:400] if fl else "")
    finally:
        sh(["git", "-C", "/repo", "worktree", "remove", "--force", wt])
        tag = hashlib.sha1(wt.encode()).hexdigest()[:8]
        shutil.rmtree(os.path.join(ROOT, "coq", "gen_" + tag), ignore_errors=True)
        for f in ("alt-%s.mod" % tag, "alt-%s.sum" % tag):
            try: os.remove(os.path.join(ROOT, "harness", f))
            except OSError: pass
        for f in os.listdir(os.path.join(ROOT, "harness", "bin")):
            if f.endswith("-" + tag): os.remove(os.path.join(ROOT, "harness", "bin", f))
    meta["recheck"] = res
    json.dump(meta, open(os.path.join(sd, "meta.json"), "w"), indent=1)
    v = res.get("violation_line", "")
    print("%s %s %s" % (sid, "ERROR " + res["error"] if "error" in res else ("MISSED" if not v else ("caught-no-input" if "no-failing-input-found" in v else "caught")), res.get("failing_input", "")[:140]), flush=True)

def main():
    a = sys.argv[1:]
    j = 4
    if "-j" in a:
        j = int(a[a.index("-j") + 1]); del a[a.index("-j"):a.index("-j") + 2]
    ids = sorted(os.listdir(os.path.join(ROOT, "seeded"))) if "--all" in a else a
    ids = [i for i in ids if os.path.isdir(os.path.join(ROOT, "seeded", i))]
    with ThreadPoolExecutor(max_workers=j) as ex:
        list(ex.map(one, ids))

if __name__ == "__main__":
    main()
