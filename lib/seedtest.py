#!/usr/bin/env python3
"""Confirms one seeded change and runs the property's check against it.

usage: lib/seedtest.py <Cxx> <dir> <k> [--keep] [--no-suite]
  <dir> holds m<k>.diff, m<k>_demo_test.go, m<k>_demo_path.txt, m<k>_meta.txt (written by an
  independent sub-agent that saw only the property text).

Steps, all in a scratch worktree of /repo (removed at the end):
  1. demo test on the unchanged tree               -> must pass
  2. apply the diff, `go build ./...`              -> must build
  3. the repository's whole test suite             -> must pass
  4. demo test with the change                     -> must fail
  5. VERIF_REPO=<worktree> ./check Cxx             -> VIOLATION expected (own gen dir, no evidence/)
With --keep (and 1-4 confirmed) the change is stored as /verif/seeded/<Cxx>-m<k>/
(patch.diff, demo test, meta.json).  Prints one JSON line.
"""
import hashlib, json, os, re, shutil, subprocess, sys, time

ROOT = os.path.dirname(os.path.dirname(os.path.abspath(__file__)))
ENV = dict(os.environ, GOFLAGS="-mod=mod", GOPROXY="off", GOSUMDB="off", GOTOOLCHAIN="local")


def sh(cmd, cwd=None, env=None, timeout=3600):
    p = subprocess.run(cmd, cwd=cwd, env=env or ENV, shell=isinstance(cmd, str), stdout=subprocess.PIPE,
                       stderr=subprocess.STDOUT, text=True, errors="replace", timeout=timeout)
    return p.returncode, p.stdout


def main():
    args = [a for a in sys.argv[1:] if not a.startswith("--")]
    keep = "--keep" in sys.argv
    no_suite = "--no-suite" in sys.argv
    tier = "thorough" if "--thorough" in sys.argv else "quick"
    pid, d, k = args[0], args[1], args[2]
    name = "%s-m%s" % (pid, k)
    wt = "/tmp/seedwt-%s" % name
    sh(["git", "-C", "/repo", "worktree", "remove", "--force", wt])
    rc, out = sh(["git", "-C", "/repo", "worktree", "add", "--detach", wt, "HEAD"])
    if rc != 0:
        print(json.dumps({"id": name, "error": "worktree: " + out[-300:]}))
        return 2
    res = {"id": name, "property": pid}
    try:
        diff = os.path.join(d, "m%s.diff" % k)
        demo = os.path.join(d, "m%s_demo_test.go" % k)
        rel = open(os.path.join(d, "m%s_demo_path.txt" % k)).read().strip()
        pkg = "./" + os.path.dirname(rel)
        m = re.search(r"func (Test\w+)\(", open(demo).read())
        run = ["-run", "^%s$" % m.group(1)] if m else []
        dst = os.path.join(wt, rel)
        shutil.copyfile(demo, dst)
        rc, o1 = sh(["go", "test", "-vet=off", "-count=1"] + run + [pkg], cwd=wt)
        res["demo_on_clean_exit"] = rc
        os.remove(dst)
        rc, out = sh(["git", "apply", diff], cwd=wt)
        if rc != 0:
            res["error"] = "patch does not apply: " + out[-300:]
            print(json.dumps(res))
            return 2
        rc, out = sh(["go", "build", "./..."], cwd=wt)
        res["build_exit"] = rc
        if not no_suite:
            rc, out = sh(["go", "test", "-vet=off", "-count=1", "-timeout", "25m", "./..."], cwd=wt)
            res["suite_exit"] = rc
            if rc != 0:
                res["suite_tail"] = out[-600:]
        shutil.copyfile(demo, dst)
        rc, o2 = sh(["go", "test", "-vet=off", "-count=1"] + run + [pkg], cwd=wt)
        res["demo_on_mutant_exit"] = rc
        os.remove(dst)
        res["confirmed"] = (res["demo_on_clean_exit"] == 0 and res["build_exit"] == 0
                            and res.get("suite_exit", 0) == 0 and res["demo_on_mutant_exit"] != 0)
        t0 = time.time()
        rc, out = sh([os.path.join(ROOT, "check"), pid, "--tier", tier], cwd=ROOT, env=dict(ENV, VERIF_REPO=wt))
        res["check_exit"] = rc
        res["check_wall_s"] = round(time.time() - t0, 1)
        vl = [l for l in out.splitlines() if l.startswith("VIOLATION")]
        fl = [l.strip() for l in out.splitlines() if "failing input:" in l or l.strip().startswith("broken:")]
        res["violation_line"] = vl[0] if vl else ""
        res["failing_input"] = fl[0][:400] if fl else ""
        res["caught"] = bool(vl)
        res["caught_with_input"] = bool(vl) and "no-failing-input-found" not in vl[0]
        with open("/tmp/seedcheck-%s.log" % name, "w") as f:
            f.write(out)
        if keep and res["confirmed"]:
            sd = os.path.join(ROOT, "seeded", name)
            os.makedirs(sd, exist_ok=True)
            shutil.copyfile(diff, os.path.join(sd, "patch.diff"))
            shutil.copyfile(demo, os.path.join(sd, os.path.basename(rel)))
            meta_txt = ""
            mp = os.path.join(d, "m%s_meta.txt" % k)
            if os.path.exists(mp):
                meta_txt = open(mp).read()
            meta = {
                "id": name, "breaks_property": pid,
                "author": "independent sub-agent given only the property text and a private worktree",
                "needs_to_manifest": meta_txt,
                "demo": {"file": os.path.basename(rel), "place_at": rel,
                         "run": "go test -vet=off -count=1 %s %s" % (" ".join(run), pkg)},
                "confirmed": {"repo_head": sh(["git", "-C", "/repo", "rev-parse", "HEAD"])[1].strip(),
                              "demo_on_unchanged_tree": "pass", "build_with_change": "ok",
                              "suite_with_change": "pass" if not no_suite else "not run",
                              "demo_with_change": "fail",
                              "how": "lib/seedtest.py %s <dir> %s --keep (scratch worktree, removed afterwards)" % (pid, k)},
                "check_result": {"cmd": "VERIF_REPO=<worktree with patch> ./check %s --tier %s" % (pid, tier),
                                 "exit": res["check_exit"], "violation_line": res["violation_line"],
                                 "failing_input": res["failing_input"], "wall_s": res["check_wall_s"]},
            }
            with open(os.path.join(sd, "meta.json"), "w") as f:
                json.dump(meta, f, indent=1)
                f.write("\n")
    finally:
        sh(["git", "-C", "/repo", "worktree", "remove", "--force", wt])
        tag = hashlib.sha1(wt.encode()).hexdigest()[:8]
        shutil.rmtree(os.path.join(ROOT, "coq", "gen_" + tag), ignore_errors=True)
        for f in ("alt-%s.mod" % tag, "alt-%s.sum" % tag):
            try:
                os.remove(os.path.join(ROOT, "harness", f))
            except OSError:
                pass
        for f in os.listdir(os.path.join(ROOT, "harness", "bin")):
            if f.endswith("-" + tag):
                os.remove(os.path.join(ROOT, "harness", "bin", f))
    print(json.dumps(res))
    return 0


if __name__ == "__main__":
    sys.exit(main())
