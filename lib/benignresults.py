#!/usr/bin/env python3
"""Writes benign/RESULTS.md: every behaviour-preserving change, the check's first verdict and its
verdict on the final tree (from benign/<id>/meta.json, written by lib/benigntest.py)."""
import json, os
ROOT = os.path.dirname(os.path.dirname(os.path.abspath(__file__)))
B = os.path.join(ROOT, "benign")
rows = []
for d in sorted(os.listdir(B)):
    mp = os.path.join(B, d, "meta.json")
    if not os.path.exists(mp):
        continue
    m = json.load(open(mp))
    f, l = m.get("first_check_result") or {}, m.get("final_check_result") or {}
    why = " ".join((m.get("why_the_property_still_holds") or "").split())
    rows.append((d, f.get("verdict", "?"), (f.get("reason") or "")[:160].replace("|", "/"), l.get("verdict", "?"),
                 l.get("repo_head", "")[:7], why[:200].replace("|", "/")))
with open(os.path.join(B, "RESULTS.md"), "w") as out:
    out.write("# Behaviour-preserving changes (false-alarm test)\n\n")
    out.write("Written by independent sub-agents that saw only the property text (ids `-b0` by hand). "
              "`lib/benigntest.py` applies each in a scratch worktree and runs `./check`; the check must stay quiet.\n\n")
    n = len(rows)
    fa = sum(1 for r in rows if r[1] != "quiet (no alarm)")
    la = sum(1 for r in rows if r[3] != "quiet (no alarm)")
    out.write("%d changes; first run: %d alarm(s); final tree: %d alarm(s).\n\n" % (n, fa, la))
    out.write("| id | first verdict | reason of the first alarm | final verdict | /repo | what the change is |\n|---|---|---|---|---|---|\n")
    for r in rows:
        out.write("| %s | %s | %s | %s | %s | %s |\n" % r)
print("benign: %d changes, %d first-run alarms, %d final alarms" % (n, fa, la))
