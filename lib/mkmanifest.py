#!/usr/bin/env python3
"""Regenerates /verif/MANIFEST.json from props/*.json (one file per claimed property)."""
import json, glob, os, subprocess
ROOT = os.path.dirname(os.path.dirname(os.path.abspath(__file__)))
props = [json.loads(l) for l in open(os.path.join(ROOT, "properties.jsonl"))]
cfgs = {}
for p in sorted(glob.glob(os.path.join(ROOT, "props", "C*.json"))):
    c = json.load(open(p))
    cfgs[c["id"]] = c
hooks = []
try:
    out = subprocess.run("git -C /repo log --format=%H --grep='^verif hook' ", shell=True, capture_output=True, text=True).stdout.split()
    hooks = out
except Exception:
    pass
checks = []
na = []
for p in props:
    pid = p["id"]
    c = cfgs.get(pid)
    if not c or c.get("disabled"):
        na.append({"property_id": pid, "reason": (c or {}).get("na_reason", "check not built yet; see DESIGN.md section 4 for the plan")})
        continue
    checks.append({
        "property_id": pid,
        "quick_cmd": "./check %s --tier quick" % pid,
        "thorough_cmd": "./check %s --tier thorough" % pid,
        "evidence_file": "/verif/evidence/%s.json" % pid,
        "replay_cmd_template": "./check %s --replay {path}" % pid,
        "engine": "coq-css",
        "level_claimed": {"category": c.get("level", "proof"), "text": c["level_text"], "design_ref": c.get("design_ref", "DESIGN.md section 4")},
        "level_note": c["level_note"],
        "technique": c.get("technique", "machine-checked proof in Coq 8.16.1 over a model tied to the source by a correspondence check"),
    })
m = {
    "version": 1,
    "setup_cmd": "./setup.sh",
    "hooks": {
        "guard": "verif",
        "enable": "go build -tags verif (the harness under /verif/harness is always built with -tags verif; hook files are add-only *_verif.go files with //go:build verif)",
        "baseline_off_cmd": "cd /repo && GOFLAGS=-mod=mod go test -vet=off -count=1 -timeout 25m ./...",
        "source_commits": hooks,
        "add_only": True,
    },
    "engines": [{
        "name": "coq-css", "path": "/verif/coq",
        "serves_properties": [c["property_id"] for c in checks],
        "kind_free_text": "Coq 8.16.1 development (Lib/Model/Proofs/Props) + Go correspondence harness (/verif/harness) + Go-to-Coq translator (/verif/tools/go2coq) driven by /verif/check",
    }],
    "checks": checks,
    "not_applicable": na,
    "notes": "All checks: exit 0 = property held on everything explored; exit 1 + `VIOLATION property=<id> replay=<path>`; KNOWN-FINDING lines for entries of KNOWN_FINDINGS.json. See DESIGN.md.",
}
json.dump(m, open(os.path.join(ROOT, "MANIFEST.json"), "w"), indent=1)
print("MANIFEST.json: %d checks, %d not_applicable" % (len(checks), len(na)))
