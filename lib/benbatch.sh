#!/bin/bash
# usage: [KS="1 2 3"] [SRC=/tmp/benign-out] lib/benbatch.sh Cxx...   runs b<k> of each property, 3 properties in parallel
# (SRC/<Cxx>/b<k>.diff; with SRC=stored the changes kept under benign/<Cxx>-b<k>/ are re-run on the current tree)
cd "$(dirname "$0")/.."
export KS="${KS:-1 2 3}" SRC="${SRC:-/tmp/benign-out}"
for p in "$@"; do echo $p; done | xargs -P 3 -I{} sh -c 'for k in $KS; do if [ "$SRC" = stored ]; then d=benign/{}-b$k; [ -f $d/patch.diff ] && python3 lib/benigntest.py {} $PWD/$d $k --keep --no-suite > /tmp/benres-{}-$k.json 2>&1; else [ -f $SRC/{}/b$k.diff ] && python3 lib/benigntest.py {} $SRC/{} $k --keep --no-suite > /tmp/benres-{}-$k.json 2>&1; fi; done'
