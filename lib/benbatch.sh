#!/bin/bash
# usage: benbatch.sh Cxx...   runs b1..b3 of each, 3 properties in parallel
cd /verif
for p in "$@"; do echo $p; done | xargs -P 3 -I{} sh -c 'for k in 1 2 3; do [ -f /tmp/benign-out/{}/b$k.diff ] && python3 lib/benigntest.py {} /tmp/benign-out/{} $k --keep --no-suite > /tmp/benres-{}-$k.json 2>&1; done'
