#!/usr/bin/env python3
"""Runs one behaviour-preserving change against the property's check (false-alarm test).

usage: lib/benigntest.py <Cxx> <dir> <k> [--keep] [--no-suite]
  <dir> holds b<k>.diff and b<k>_meta.txt, written by an independent sub-agent that saw only
  the property text and was asked for a change under which the property still holds.

Steps, all in a scratch worktree of /repo (removed at the end):
  1. apply the diff, `go build ./...`              -> must build
  2. the repository's whole test suite             -> must pass
  3. VERIF_REPO=<worktree> ./check Cxx             -> OK expected (own gen dir, no evidence/)
With --keep the change is stored as /verif/benign/<Cxx>-b<k>/ (patch.diff, meta.json).
Prints one JSON line.
"""
import hashlib, json, os, shutil, subprocess, sys, time

ROOT = os.path.dirname(os.path.dirname(os.path.abspath(__file__)))
ENV = dict(os.environ, GOFLAGS="-mod=mod", GOPROXY="off", GOSUMDB="off", GOTOOLCHAIN="local")


def sh(cmd, cwd=None, env=None, timeout=3600):
    p = subprocess.run(cmd, cwd=cwd, env=env or ENV, shell=isinstance(cmd, str), stdout=subprocess.PIPE,
                       stderr=subprocess.STDOUT, text=True, errors="replace", timeout=timeout)
    return p.returncode, p.stdout


def main():
    args = [a for a in sys.argv[1:] if not a.startswith("--")]
    keep = "--keep" in sys.argv
    no_suite = "--no-suite" in sys.argv
    pid, d, k = args[0], args[1], args[2]
    name = "%s-b%s" % (pid, k)
    wt = "/tmp/benignwt-%s" % name
    sh(["git", "-C", "/repo", "worktree", "remove", "--force", wt])
    rc, out = sh(["git", "-C", "/repo", "worktree", "add", "--detach", wt, "HEAD"])
    if rc != 0:
        print(json.dumps({"id": name, "error": "worktree: " + out[-300:]}))
        return 2
    res = {"id": name, "property": pid}
    try:
        diff = os.path.join(d, "b%s.diff" % k) if os.path.exists(os.path.join(d, "b%s.diff" % k)) \
            else os.path.join(d, "patch.diff")
        rc, out = sh(["git", "apply", diff], cwd=wt)
        if rc != 0:
            res["error"] = "patch does not apply: " + out[-300:]
            print(json.dumps(res))
            return 2
        rc, out = sh(["go", "build", "./..."], cwd=wt)
        res["build_exit"] = rc
        if not no_suite:
            rc, out = sh(["go", "test", "-vet=off", "-count=1", "-timeout", "25m", "./..."], cwd=wt)
            res["suite_exit"] = rc
            if rc != 0:
                res["suite_tail"] = out[-600:]
        res["admissible"] = res["build_exit"] == 0 and res.get("suite_exit", 0) == 0
        t0 = time.time()
        rc, out = sh([os.path.join(ROOT, "check"), pid], cwd=ROOT, env=dict(ENV, VERIF_REPO=wt))
        res["check_exit"] = rc
        res["check_wall_s"] = round(time.time() - t0, 1)
        vl = [l for l in out.splitlines() if l.startswith("VIOLATION")]
        fl = [l.strip() for l in out.splitlines() if "failing input:" in l or l.strip().startswith("broken:")]
        res["violation_line"] = vl[0] if vl else ""
        res["reason"] = fl[0][:400] if fl else ""
        res["quiet"] = rc == 0 and not vl
        with open("/tmp/benigncheck-%s.log" % name, "w") as f:
            f.write(out)
        if keep and res["admissible"]:
            sd = os.path.join(ROOT, "benign", name)
            os.makedirs(sd, exist_ok=True)
            if os.path.abspath(diff) != os.path.abspath(os.path.join(sd, "patch.diff")):
                shutil.copyfile(diff, os.path.join(sd, "patch.diff"))
            meta_txt = ""
            mp = os.path.join(d, "b%s_meta.txt" % k)
            if os.path.exists(mp):
                meta_txt = open(mp).read()
            mj = os.path.join(sd, "meta.json")
            meta = json.load(open(mj)) if os.path.exists(mj) else {
                "id": name, "property_still_holds": pid,
                "author": "independent sub-agent given only the property text and a private worktree, "
                          "asked for a realistic change under which the property still holds",
                "why_the_property_still_holds": meta_txt,
                "first_check_result": None,
            }
            run = {"repo_head": sh(["git", "-C", "/repo", "rev-parse", "HEAD"])[1].strip(),
                   "build_with_change": "ok", "suite_with_change": "pass" if not no_suite else "not run",
                   "cmd": "VERIF_REPO=<worktree with patch> ./check %s" % pid,
                   "exit": res["check_exit"], "violation_line": res["violation_line"],
                   "reason": res["reason"], "wall_s": res["check_wall_s"],
                   "verdict": "quiet (no alarm)" if res["quiet"] else "ALARM"}
            if meta.get("first_check_result") is None:
                meta["first_check_result"] = run
            meta["final_check_result"] = run
            with open(mj, "w") as f:
                json.dump(meta, f, indent=1)
                f.write("\n")
    finally:
        sh(["git", "-C", "/repo", "worktree", "remove", "--force", wt])
        tag = hashlib.sha1(wt.encode()).hexdigest()[:8]
        shutil.rmtree(os.path.join(ROOT, "coq", "gen_" + tag), ignore_errors=True)
        for f in ("alt-%s.mod" % tag, "alt-%s.sum" % tag):
            try:
                os.remove(os.path.join(ROOT, "harness", f))
            except OSError:
                pass
        for f in os.listdir(os.path.join(ROOT, "harness", "bin")):
            if f.endswith("-" + tag):
                os.remove(os.path.join(ROOT, "harness", "bin", f))
    print(json.dumps(res))
    return 0


if __name__ == "__main__":
    sys.exit(main())
