#!/usr/bin/env python3
"""Refreshes the generated parts of DESIGN.md (between <!-- BEGIN x --> / <!-- END x --> markers):
summary table (theorem counts from coq/Props, ties, findings from KNOWN_FINDINGS.json) and the
lists of fixed / open findings."""
import glob, json, os, re, subprocess
ROOT = os.path.dirname(os.path.dirname(os.path.abspath(__file__)))
k = json.load(open(os.path.join(ROOT, "KNOWN_FINDINGS.json")))
consts = json.load(open(os.path.join(ROOT, "spec", "consts.json")))
origins = json.load(open(os.path.join(ROOT, "spec", "origins.json"))) if os.path.exists(os.path.join(ROOT, "spec", "origins.json")) else []
props = [json.loads(l) for l in open(os.path.join(ROOT, "properties.jsonl"))]
seeds = {}
for p in glob.glob(os.path.join(ROOT, "seeded", "*", "meta.json")):
    m = json.load(open(p)); pid = m["breaks_property"]
    vl = m.get("check_result", {}).get("violation_line", "")
    rc = m.get("recheck") or {}
    if rc and "error" not in rc:
        vl = rc.get("violation_line", "")
    caught = bool(vl) or bool(m.get("after_strengthening"))
    seeds.setdefault(pid, [0, 0]); seeds[pid][0] += 1; seeds[pid][1] += 1 if caught else 0
rows = []
for p in props:
    pid = p["id"]
    src = open(os.path.join(ROOT, "coq", "Props", pid + ".v")).read()
    thms = re.findall(r"^Theorem\s+(\S+)", src, re.M)
    npart = sum(1 for t in thms if "_partial" in t); nref = sum(1 for t in thms if "_refuted" in t)
    cfg = json.load(open(os.path.join(ROOT, "props", pid + ".json")))
    models = sorted(set(re.findall(r"Model\.([A-Za-z0-9]+)", open(os.path.join(ROOT, "harness", "cmd", cfg["harness"], "main.go")).read())) - {"Cases"})
    models = [m for m in models if not m.endswith("Cases")]
    tie = "C"
    if cfg.get("translator"): tie = "**T** + C"
    nk = sum(1 for e in consts if pid in e.get("props", []))
    if nk: tie += " + K(%d)" % nk
    no = sum(1 for e in origins if pid in e.get("props", []))
    if no: tie += " + O(%d)" % no
    nfix = sum(1 for f in k["fixed"] if f["property"] == pid)
    opn = [f["id"] for f in k["findings"] if f["property"] == pid and f.get("status") == "open"]
    s = seeds.get(pid, [0, 0])
    rows.append("| %s | %s | %s | %d (%d partial, %d refuted) | %d fixed, %d open | %d/%d |" % (
        pid, ", ".join(models), tie, len(thms), npart, nref, nfix, len(opn), s[1], s[0]))
table = ("| id | models (coq/Model) | tie | theorems in Props/Cxx.v | findings | seeded changes caught |\n|---|---|---|---|---|---|\n" + "\n".join(rows) +
         "\n\nTie: C = correspondence check (model evaluated in Coq on the cases the harness ran on the real code), T = translator (model regenerated from the source), K(n) = constants tie (n model constants re-read from the source), O(n) = result-origin tie (n API functions whose result origins and effects are re-derived from the source). "
         "Totals: %d theorems, %d findings fixed in /repo, %d open." % (
             sum(int(r.split("|")[4].split()[0]) for r in rows), len(k["fixed"]), sum(1 for f in k["findings"] if f.get("status") == "open")))
fixed = "\n".join("* %s" % f["line"] for f in k["fixed"])
opened = "\n".join("* `%s` (%s) — %s" % (f["id"], f["property"], " ".join(f["what"].split())[:300]) for f in k["findings"] if f.get("status") == "open")
d = open(os.path.join(ROOT, "DESIGN.md")).read()
for name, body in (("SUMMARY", table), ("FIXED", fixed), ("OPEN", opened)):
    d = re.sub(r"(<!-- BEGIN %s -->).*?(<!-- END %s -->)" % (name, name), lambda m: m.group(1) + "\n" + body + "\n" + m.group(2), d, flags=re.S)
open(os.path.join(ROOT, "DESIGN.md"), "w").write(d)
print("DESIGN.md refreshed: %d rows, %d fixed, open %d" % (len(rows), len(k["fixed"]), opened.count("\n") + 1))
