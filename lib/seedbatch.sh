#!/bin/bash
# usage: lib/seedbatch.sh "<k list>" <Cxx> [<Cxx> ...]   e.g. lib/seedbatch.sh "6 7" C01 C02
# Runs lib/seedtest.py --keep for /tmp/seed-out/<Cxx>/m<k>.* (4 at a time) and prints one summary line each.
KS=$1; shift
cd "$(dirname "$0")/.."
for p in "$@"; do for k in $KS; do [ -f /tmp/seed-out/$p/m$k.diff ] && echo "$p $k"; done; done | \
  xargs -P 4 -L 1 sh -c 'python3 lib/seedtest.py $0 /tmp/seed-out/$0 $1 --keep > /tmp/seedres-$0-$1.json 2>&1'
for p in "$@"; do for k in $KS; do f=/tmp/seedres-$p-$k.json; [ -f $f ] && python3 -c "
import json
try:
  d=json.loads(open('$f').read().strip().splitlines()[-1]); print(d['id'], 'confirmed' if d.get('confirmed') else 'NOTCONF', 'caught' if d.get('caught') else 'MISSED', 'input' if d.get('caught_with_input') else '', d.get('failing_input','')[:150], d.get('error',''))
except Exception as e: print('$f unreadable')
"; done; done
