#!/bin/bash
# usage: lib/seedtest.sh <Cxx> <dir with mN.diff, mN_demo_test.go, mN_demo_path.txt> <N>
# Confirms a seeded change in a scratch worktree (compiles, existing tests pass, demo fails with / passes without),
# then runs ./check Cxx against the changed tree. Prints a one-line JSON summary.
set -u
PID=$1; DIR=$2; N=$3
export GOFLAGS=-mod=mod GOPROXY=off GOSUMDB=off GOTOOLCHAIN=local
WT=/tmp/seedwt-$PID-$N
git -C /repo worktree remove --force $WT >/dev/null 2>&1
git -C /repo worktree add --detach $WT HEAD >/dev/null 2>&1 || { echo '{"error":"worktree"}'; exit 2; }
# hook files that are not yet committed
for f in $(git -C /repo status --short | awk '$1=="??"{print $2}' | grep _verif.go); do mkdir -p $WT/$(dirname $f); cp /repo/$f $WT/$f; done
DEMO_REL=$(cat $DIR/m${N}_demo_path.txt | tr -d '\n ')
DEMO_PKG=./$(dirname $DEMO_REL)
cp $DIR/m${N}_demo_test.go $WT/$DEMO_REL
( cd $WT && go test -vet=off -count=1 $DEMO_PKG >/tmp/seed-$PID-$N.clean.log 2>&1 ); CLEAN_DEMO=$?
rm -f $WT/$DEMO_REL
( cd $WT && git apply $DIR/m${N}.diff ) || { echo "{\"id\":\"$PID-m$N\",\"error\":\"patch does not apply\"}"; git -C /repo worktree remove --force $WT; exit 2; }
( cd $WT && go build ./... >/tmp/seed-$PID-$N.build.log 2>&1 ); BUILD=$?
( cd $WT && go test -vet=off -count=1 ./... >/tmp/seed-$PID-$N.suite.log 2>&1 ); SUITE=$?
cp $DIR/m${N}_demo_test.go $WT/$DEMO_REL
( cd $WT && go test -vet=off -count=1 $DEMO_PKG >/tmp/seed-$PID-$N.mut.log 2>&1 ); MUT_DEMO=$?
rm -f $WT/$DEMO_REL
( cd /verif && VERIF_REPO=$WT ./check $PID > /tmp/seed-$PID-$N.check.log 2>&1 ); CHECK=$?
VLINE=$(grep -m1 '^VIOLATION' /tmp/seed-$PID-$N.check.log)
FLINE=$(grep -m1 'failing input' /tmp/seed-$PID-$N.check.log | cut -c1-300 | sed 's/"/\\"/g')
git -C /repo worktree remove --force $WT >/dev/null 2>&1
echo "{\"id\":\"$PID-m$N\",\"demo_on_clean_exit\":$CLEAN_DEMO,\"build_exit\":$BUILD,\"suite_exit\":$SUITE,\"demo_on_mutant_exit\":$MUT_DEMO,\"check_exit\":$CHECK,\"violation_line\":\"$VLINE\",\"failing_input\":\"$FLINE\"}"
