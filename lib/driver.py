import argparse, fcntl, glob, hashlib, json, os, re, shutil, subprocess, sys, time
from concurrent.futures import ThreadPoolExecutor

import resource
try:  # coqc parses 64 KiB list literals (firmware images in case files): the default 8 MiB stack overflows
    _h = resource.getrlimit(resource.RLIMIT_STACK)[1]
    resource.setrlimit(resource.RLIMIT_STACK, (_h, _h))
except (ValueError, OSError):
    pass

ROOT = os.path.dirname(os.path.dirname(os.path.abspath(__file__)))
COQ = os.path.join(ROOT, "coq")
HARNESS = os.path.join(ROOT, "harness")
REPO = os.environ.get("VERIF_REPO", "/repo")
# Runs against a scratch worktree (seeded changes, VERIF_REPO=...) use their own generated-files
# directory and never write evidence/: several of them can run at once and the committed evidence
# always comes from /repo itself.
ALT = REPO != "/repo"
GENNAME = "gen" if not ALT else "gen_" + hashlib.sha1(REPO.encode()).hexdigest()[:8]
GEN = os.path.join(COQ, GENNAME)

GOENV = dict(os.environ, GOFLAGS="-mod=mod", GOPROXY="off", GOSUMDB="off", GOTOOLCHAIN="local",
             CGO_ENABLED=os.environ.get("CGO_ENABLED", "0"))

COMMON_TRUSTED = [
    "Coq 8.16.1 kernel incl. its vm_compute evaluator (no native_compute anywhere)",
    "correspondence harness /verif/harness (Go): case generators, projection of observables, Gallina literal printer",
    "coqc printing `M = []` for the generated Cases_*.v (model evaluated inside Coq; no extraction in this tier)",
]


SIGKILLED = []  # commands that were killed from outside (SIGKILL: the kernel's OOM killer) and re-run


def sh(cmd, cwd=None, env=None, timeout=None):
    """Runs a command.  A child that dies of SIGKILL did not give a verdict (the kernel's OOM killer
    picks coqc and harness processes when the machine is short of memory; our own time limits raise
    TimeoutExpired instead), so it is run again, twice at most, after a pause."""
    for attempt in range(3):
        p = subprocess.run(cmd, cwd=cwd, env=env, shell=isinstance(cmd, str), stdout=subprocess.PIPE,
                           stderr=subprocess.STDOUT, timeout=timeout, text=True, errors="replace")
        if p.returncode != -9 or attempt == 2:
            break
        SIGKILLED.append(os.path.basename(cmd if isinstance(cmd, str) else " ".join(cmd[:1] + cmd[-1:]))[:80])
        time.sleep(20 * (attempt + 1))
    return p.returncode, p.stdout


def load_cfg(pid):
    with open(os.path.join(ROOT, "props", pid + ".json")) as f:
        return json.load(f)


def load_known():
    p = os.path.join(ROOT, "KNOWN_FINDINGS.json")
    if not os.path.exists(p):
        return []
    with open(p) as f:
        return json.load(f).get("findings", [])


# ---------------------------------------------------------------- Coq side

def coq_targets(cfg):
    """.vo files this property needs: its Props file and the model modules its Cases header imports."""
    t = [cfg.get("props_file", "Props/%s.v" % cfg["id"]) + "o"]
    try:
        src = open(os.path.join(HARNESS, "cmd", cfg["harness"], "main.go")).read()
        for m in re.finditer(r"\b(Model|Lib|Spec|Proofs)\.([A-Za-z0-9_]+)", src):
            f = "%s/%s.vo" % (m.group(1), m.group(2))
            if os.path.exists(os.path.join(COQ, f[:-1])) and f not in t:
                t.append(f)
    except OSError:
        pass
    t = t + [x for x in cfg.get("coq_targets", []) if x not in t]
    if os.path.exists(os.path.join(COQ, "Lib", "Origins.v")) and "Lib/Origins.vo" not in t:
        t.append("Lib/Origins.vo")
    return t


def build_coq(log, cfg=None):
    """Incremental full (.vo) build, under a lock, of what this property depends on
    (setup.sh builds the whole development; a check must not wait for unrelated files)."""
    os.makedirs(GEN, exist_ok=True)
    targets = coq_targets(cfg) if cfg else []
    with open(os.path.join(COQ, ".lock"), "w") as lk:
        fcntl.flock(lk, fcntl.LOCK_EX)
        try:
            rc, out = sh(["./mk.sh", "-k"] + targets, cwd=COQ, timeout=int(os.environ.get("COQ_BUILD_TIMEOUT", "1500")) + 60)
        except subprocess.TimeoutExpired:
            rc, out = 124, "coq build timed out"
    log.append(("coq build", rc, out[-4000:]))
    return rc == 0, out


THEOREM_RE = re.compile(r"^\s*(Theorem|Corollary)\s+([A-Za-z0-9_']+)", re.M)


def check_props(cfg, log):
    """Re-checks Props/<id>.v with coqc and parses Print Assumptions."""
    rel = cfg.get("props_file", "Props/%s.v" % cfg["id"])
    path = os.path.join(COQ, rel)
    src = open(path).read()
    theorems = [m.group(2) for m in THEOREM_RE.finditer(src)]
    # compile into a scratch copy so that parallel checks never race on the .vo
    scratch = os.path.join(GEN, "PropsCheck_%s.v" % cfg["id"])
    shutil.copyfile(path, scratch)
    rc, out = sh(["coqc", "-noglob", "-Q", COQ, "CSS", scratch], cwd=COQ, timeout=cfg.get("props_timeout_s", 900))
    log.append(("props check", rc, out[-4000:]))
    assumptions = {}
    # output of `Print Assumptions thm.` follows in order
    blocks = re.split(r"(?=Closed under the global context|Axioms:)", out)
    pa = re.findall(r"Print Assumptions\s+([A-Za-z0-9_']+)\s*\.", src)
    bi = 0
    for b in blocks:
        if b.startswith("Closed under the global context"):
            if bi < len(pa):
                assumptions[pa[bi]] = []
            bi += 1
        elif b.startswith("Axioms:"):
            names = re.findall(r"^([A-Za-z0-9_.']+)\s*:", b[len("Axioms:"):], re.M)
            if bi < len(pa):
                assumptions[pa[bi]] = names
            bi += 1
    failed = []
    if rc != 0:
        m = re.search(r'line (\d+)', out)
        line = int(m.group(1)) if m else None
        # the theorem enclosing the failing line
        cur = None
        for mm in THEOREM_RE.finditer(src):
            ln = src.count("\n", 0, mm.start()) + 1
            if line is not None and ln <= line:
                cur = mm.group(2)
        failed = [cur or "(build of %s)" % rel]
    return theorems, assumptions, failed, out


def run_translator(cfg, log):
    """Optional translator tie: commands that regenerate coq/gen/FromSource_*.v from /repo
    and coq files (generated obligations) to compile. Returns (n_obligations, failed list, info)."""
    tr = cfg.get("translator")
    if not tr:
        return 0, [], {}
    g2c = os.path.join(HARNESS, "bin", "go2coq")
    if not os.path.exists(g2c):
        sh(["go", "build", "-o", g2c, "."], cwd=os.path.join(ROOT, "tools", "go2coq"), env=GOENV, timeout=600)
    rc, out = sh(tr["cmd"].replace("$REPO", REPO).replace("coq/gen/", "coq/%s/" % GENNAME), cwd=ROOT, env=GOENV, timeout=tr.get("timeout_s", 600))
    log.append(("translator", rc, out[-6000:]))
    if rc != 0:
        return 0, [{"name": "translator", "detail": out[-800:]}], {"translator_output": out[-2000:]}
    failed = []
    nob = 0
    info = {}
    for vf in tr.get("compile", []):
        if ALT:
            vf = vf.replace("gen/", GENNAME + "/", 1)
            with open(os.path.join(COQ, vf)) as f:
                txt = f.read()
            with open(os.path.join(COQ, vf), "w") as f:
                f.write(txt.replace(" gen.", " %s." % GENNAME))
        rc, o = sh(["coqc", "-noglob", "-Q", COQ, "CSS", os.path.join(COQ, vf)], cwd=COQ, timeout=tr.get("coq_timeout_s", 900))
        log.append(("generated " + vf, rc, o[-6000:]))
        for m in re.finditer(r"OBLIGATION\s+(\S+)\s+(ok|FAILED)(.*)", o):
            nob += 1
            if m.group(2) != "ok":
                failed.append({"name": m.group(1), "detail": m.group(3)})
        # result tuples printed by `Print R.`: ("name", true|false, None | Some (raw, expected, got))
        flat = " ".join(o.split())
        for m in re.finditer(r'\("((?:[^"]|"")*)", (true|false), (None|Some \((\d+), (\d+), (\d+)\))\)', flat):
            nob += 1
            if m.group(2) != "true":
                f = {"name": m.group(1)}
                if m.group(4) is not None:
                    f.update(witness_raw=int(m.group(4)), expected=int(m.group(5)), got=int(m.group(6)))
                failed.append(f)
        if rc != 0:
            failed.append({"name": "compile:" + vf, "detail": o[-800:]})
        info[vf] = o[-3000:]
    return nob, failed, info


def run_consts(pid, log):
    """Constants tie: every numeric constant of the hand-written models that stands for a Go
    constant (spec/consts.json) is re-read from the current source with go/types and compared
    with the model's value inside Coq.  Returns (n, failed list)."""
    spec = os.path.join(ROOT, "spec", "consts.json")
    if not os.path.exists(spec):
        return 0, []
    with open(spec) as f:
        n = sum(1 for e in json.load(f) if pid in e.get("props", []))
    if n == 0:
        return 0, []
    tool = os.path.join(HARNESS, "bin", "goconsts")
    if not os.path.exists(tool):
        sh(["go", "build", "-o", tool, "."], cwd=os.path.join(ROOT, "tools", "goconsts"), env=GOENV, timeout=600)
    vf = os.path.join(GEN, "Consts_%s.v" % pid)
    rc, out = sh([tool, "-repo", REPO, "-spec", spec, "-prop", pid, "-out", vf], cwd=ROOT, env=GOENV, timeout=600)
    log.append(("goconsts", rc, out[-3000:]))
    if rc != 0:
        return n, [{"name": "constants-tie: goconsts failed", "detail": out[-600:]}]
    rc, o = sh(["coqc", "-noglob", "-Q", COQ, "CSS", vf], cwd=COQ, timeout=600)
    log.append(("consts " + vf, rc, o[-3000:]))
    flat = " ".join(o.split())
    m = re.search(r"FAILED = (\[.*?\]) : list", flat)
    if rc != 0 or not m:
        return n, [{"name": "constants-tie: Consts_%s.v does not compile" % pid, "detail": o[-800:]}]
    failed = []
    for mm in re.finditer(r'\("((?:[^"]|"")*)", "((?:[^"]|"")*)", false\)', m.group(1)):
        failed.append({"name": "constant:" + mm.group(1), "detail": "the model's %s differs from the source: %s" % (mm.group(1), mm.group(2))})
    return n, failed


def run_origins(pid, log):
    """Result-origin tie: for the API functions listed in spec/origins.json (which the models treat as
    value-level functions) go2coq re-derives from the current source where every returned slice/pointer
    comes from (fresh / nil / receiver / parameter / package variable / callee), what the function writes
    and which package state it mentions; Coq compares the summary with the frozen, reviewed spec entry.
    Static, syntactic, conservative: a tie by translation; the dynamic checks remain the judge."""
    spec = os.path.join(ROOT, "spec", "origins.json")
    if not os.path.exists(spec):
        return 0, []
    with open(spec) as f:
        n = sum(1 for e in json.load(f) if pid in e.get("props", []))
    if n == 0:
        return 0, []
    tool = os.path.join(HARNESS, "bin", "go2coq")
    if not os.path.exists(tool):
        sh(["go", "build", "-o", tool, "."], cwd=os.path.join(ROOT, "tools", "go2coq"), env=GOENV, timeout=600)
    vf = os.path.join(GEN, "Origins_%s.v" % pid)
    rc, out = sh([tool, "-origins", spec, "-prop", pid, "-repo", REPO, "-out", vf], cwd=ROOT, env=GOENV, timeout=600)
    log.append(("go2coq -origins", rc, out[-3000:]))
    if rc != 0:
        return n, [{"name": "origin-tie: go2coq -origins failed", "detail": out[-600:]}]
    rc, o = sh(["coqc", "-noglob", "-Q", COQ, "CSS", vf], cwd=COQ, timeout=600)
    log.append(("origins " + vf, rc, o[-3000:]))
    flat = " ".join(o.split())
    m = re.search(r"FAILED = (\[.*?\]) : list", flat)
    if rc != 0 or not m:
        return n, [{"name": "origin-tie: Origins_%s.v does not compile" % pid, "detail": o[-800:]}]
    failed = []
    for mm in re.finditer(r'\("((?:[^"]|"")*)", "((?:[^"]|"")*)", false\)', m.group(1)):
        failed.append({"name": "origin:" + mm.group(1), "detail": mm.group(2)[:900]})
    return n, failed


def run_harness(cfg, seed, tier, log):
    name = cfg["harness"]
    os.makedirs(os.path.join(HARNESS, "bin"), exist_ok=True)
    shutil.copyfile(os.path.join(REPO, "go.sum"), os.path.join(HARNESS, "go.sum"))
    binp = os.path.join(HARNESS, "bin", name)
    modargs = []
    if REPO != "/repo":
        # scratch worktree (used for mutation testing only): same module file with the replace redirected
        tag = hashlib.sha1(REPO.encode()).hexdigest()[:8]
        mf = os.path.join(HARNESS, "alt-%s.mod" % tag)
        with open(os.path.join(HARNESS, "go.mod")) as f:
            gm = f.read().replace("=> /repo", "=> " + REPO)
        with open(mf, "w") as f:
            f.write(gm)
        shutil.copyfile(os.path.join(REPO, "go.sum"), os.path.join(HARNESS, "alt-%s.sum" % tag))
        modargs = ["-modfile=" + mf]
        binp = binp + "-" + tag
    rc, out = sh(["go", "build"] + modargs + ["-tags", "verif", "-o", binp, "./cmd/" + name], cwd=HARNESS, env=GOENV, timeout=900)
    log.append(("harness build", rc, out[-4000:]))
    if rc != 0:
        return None, "harness does not build against /repo: " + out[-1500:]
    for f in glob.glob(os.path.join(GEN, "Cases_%s_*" % cfg["id"])) + glob.glob(os.path.join(GEN, cfg["id"] + ".harness.json")) + glob.glob(os.path.join(GEN, cfg["id"] + ".current.json")):
        os.remove(f)
    env = dict(GOENV)
    env["VERIF_ROOT"] = ROOT
    env["VERIF_REPO"] = REPO
    try:
        rc, out = sh([binp, "-seed", str(seed), "-tier", tier, "-out", GEN], cwd=HARNESS, env=env,
                     timeout=cfg.get("harness_timeout_s", 1500 if tier == "quick" else 7200))
    except subprocess.TimeoutExpired:
        return None, "harness timed out"
    log.append(("harness run", rc, out[-4000:]))
    rp = os.path.join(GEN, cfg["id"] + ".harness.json")
    if rc != 0 or not os.path.exists(rp):
        # a crash dumps every goroutine: the line that says what happened is far above the tail
        first = re.search(r"^(panic: .*|fatal error: .*)$", out, re.M)
        return None, "harness failed (exit %d): %s%s" % (rc, (first.group(1)[:300] + " ... ") if first else "", out[-1500:])
    with open(rp) as f:
        return json.load(f), None


def shard_jobs():
    """Number of coqc shard evaluations to run at once: VERIF_JOBS if set, else 14, but not more than
    the memory that is free right now allows (a shard takes up to ~1 GiB; when other work has the
    machine short of memory the kernel kills coqc processes, which costs re-runs)."""
    if os.environ.get("VERIF_JOBS"):
        return max(1, int(os.environ["VERIF_JOBS"]))
    jobs = 14
    try:
        with open("/proc/meminfo") as f:
            for line in f:
                if line.startswith("MemAvailable:"):
                    jobs = min(jobs, max(2, int(line.split()[1]) // (1024 * 1024)))
    except (OSError, ValueError):
        pass
    return jobs


def run_shard(args):
    shard, timeout = args
    t0 = time.time()
    try:
        rc, out = sh(["coqc", "-noglob", "-Q", COQ, "CSS", os.path.join(GEN, shard + ".v")], cwd=COQ, timeout=timeout)
    except subprocess.TimeoutExpired:
        return shard, None, "timeout", time.time() - t0
    flat = " ".join(out.split())
    m = re.search(r"M = \[(.*?)\]\s*(%nat)?\s*: list nat", flat)
    if rc != 0 or not m:
        return shard, None, out[-1500:], time.time() - t0
    body = m.group(1).strip()
    idx = [int(x) for x in re.findall(r"\d+", body)] if body else []
    return shard, idx, "", time.time() - t0


# ---------------------------------------------------------------- verdict

def write_replay(pid, payload):
    d = os.path.join(ROOT, "replays")
    os.makedirs(d, exist_ok=True)
    blob = json.dumps(payload, indent=1, sort_keys=True, default=str)
    h = hashlib.sha1(blob.encode()).hexdigest()[:10]
    p = os.path.join(d, "%s-%s.json" % (pid, h))
    with open(p, "w") as f:
        f.write(blob + "\n")
    return p


def main(argv):
    ap = argparse.ArgumentParser()
    ap.add_argument("prop")
    ap.add_argument("--tier", default=os.environ.get("VERIF_TIER", "quick"))
    ap.add_argument("--replay")
    a = ap.parse_args(argv)
    pid = a.prop
    tier = a.tier if a.tier in ("quick", "thorough") else "quick"
    seed = int(os.environ.get("VERIF_SEED", "1") or 1)
    if a.replay:
        with open(a.replay) as f:
            rp = json.load(f)
        print("replaying %s (seed %s, tier %s):" % (a.replay, rp.get("seed"), rp.get("tier")))
        print(json.dumps(rp, indent=1)[:4000])
        seed = int(rp.get("seed", seed))
        tier = rp.get("tier", tier)
    t0 = time.time()
    cfg = load_cfg(pid)
    log = []
    violations = []      # (replay payload, found_input: bool)
    known_lines = []
    known = [k for k in load_known() if k.get("property") == pid]
    open_known = {k["id"]: k for k in known if k.get("status") == "open"}

    # 1. proofs
    ok_build, bout = build_coq(log, cfg)
    theorems, assumptions, failed_thms = [], {}, []
    # a failure elsewhere in the development (another property's file) does not concern this
    # property: what counts is that this property's Props file and everything it imports check.
    theorems, assumptions, failed_thms, pout = check_props(cfg, log)
    if failed_thms and not ok_build:
        failed_thms = [failed_thms[0] + " (coq build: " + bout[-600:] + ")"]
    ok_build = True
    # thorough tier: re-check the compiled theorems and everything they depend on with the
    # independent checker and record the axioms it reports
    coqchk = None
    if tier == "thorough" and not failed_thms:
        mod = "CSS." + cfg.get("props_file", "Props/%s.v" % pid)[:-2].replace("/", ".")
        try:
            rc, out = sh(["coqchk", "-silent", "-o", "-Q", COQ, "CSS", mod], cwd=COQ, timeout=cfg.get("coqchk_timeout_s", 2400))
            m = re.search(r"\* Axioms:(.*?)\n\s*\n\* Constants", out, re.S)
            coqchk = {"module": mod, "exit": rc, "axioms": " ".join(m.group(1).split()) if m else "?", "tail": out[-400:]}
            if rc != 0:
                failed_thms.append("coqchk rejects %s: %s" % (mod, out[-400:]))
        except subprocess.TimeoutExpired:
            coqchk = {"module": mod, "exit": "timeout"}
        log.append(("coqchk", coqchk.get("exit"), str(coqchk)))
    # 2. translator tie
    n_gen, gen_failed, gen_info = (0, [], {})
    if ok_build:
        n_gen, gen_failed, gen_info = run_translator(cfg, log)
    # failing obligations (with their counter-examples) are handed to the harness, which
    # re-runs them on the real code: that is where a concrete failing input comes from
    os.makedirs(GEN, exist_ok=True)
    with open(os.path.join(GEN, pid + ".failed_obligations.json"), "w") as f:
        json.dump(gen_failed, f)
    known_oblig = {}
    for k in open_known.values():
        for o in k.get("obligations", []):
            known_oblig[o] = k
    kept = []
    for g in gen_failed:
        k = known_oblig.get(g["name"])
        if k:
            line = "KNOWN-FINDING: property=%s %s [%s]" % (pid, k["what"], k["id"])
            if line not in known_lines:
                known_lines.append(line)
        else:
            kept.append(g)
    gen_failed_all, gen_failed = gen_failed, kept
    # 3. correspondence
    with ThreadPoolExecutor(max_workers=2) as cex:
        cfut = cex.submit(run_consts, pid, log)
        ofut = cex.submit(run_origins, pid, log)
        rep, herr = run_harness(cfg, seed, tier, log)
        n_const, const_failed = cfut.result()
        n_orig, orig_failed = ofut.result()
    n_gen += n_const + n_orig
    gen_failed = gen_failed + const_failed + orig_failed
    mism = {}
    shard_errors = []
    shard_times = {}
    if rep is not None and ok_build:
        per = cfg.get("shard_timeout_s", 900 if tier == "quick" else 3600)
        with ThreadPoolExecutor(max_workers=shard_jobs()) as ex:
            for shard, idx, err, dt in ex.map(run_shard, [(s, per) for s in rep["shards"]]):
                shard_times[shard] = round(dt, 1)
                if idx is None:
                    shard_errors.append((shard, err))
                elif idx:
                    mism[shard] = idx
    # case descriptions
    descr = []
    dp = os.path.join(GEN, pid + ".cases.jsonl")
    if os.path.exists(dp):
        with open(dp) as f:
            descr = [l.rstrip("\n") for l in f]

    def case_descr(shard, i):
        si = rep["shards"].index(shard)
        off = sum(rep["shard_sizes"][:si])
        g = off + i
        try:
            return g, json.loads(descr[g])
        except Exception:
            return g, None

    # 4. verdict ------------------------------------------------------------
    unknown_fail = []
    if rep is not None:
        for pr in (rep.get("probes") or []):
            if pr["reproduced"] and pr["id"] in open_known:
                known_lines.append("KNOWN-FINDING: property=%s %s [%s]" % (pid, open_known[pr["id"]]["what"], pr["id"]))
            elif pr["reproduced"]:
                unknown_fail.append({"case": -1, "what": pr["what"], "site": pr["id"], "input": pr.get("what")})
        seen_known = set()
        for of in (rep.get("oracle_failures") or []):
            k = of.get("known")
            if k and k in open_known:
                if k not in seen_known:
                    seen_known.add(k)
                    line = "KNOWN-FINDING: property=%s %s [%s]" % (pid, open_known[k]["what"], k)
                    if line not in known_lines:
                        known_lines.append(line)
            else:
                unknown_fail.append(of)
    if rep is None and herr and ("panic" in herr or "fatal error" in herr or "timed out" in herr):
        # the harness itself died or hung: the code under test panicked in a goroutine of its own
        # (not recoverable), dead-locked or span.  The input it was running is the failing input.
        cur = os.path.join(GEN, pid + ".current.json")
        if os.path.exists(cur):
            try:
                with open(cur) as f:
                    c = json.load(f)
                m = re.search(r"(panic: .*|fatal error: .*|harness timed out)", herr)
                unknown_fail.append({"case": -1, "site": c.get("site"), "input": c.get("input"),
                                     "what": "%s -- the harness process died while running this input: %s (a panic in a goroutine started by the code under test cannot be recovered; the input is the one recorded before the call)" % (c.get("what"), m.group(1)[:300] if m else "crashed")})
            except (OSError, ValueError):
                pass
    base = {"property": pid, "seed": seed, "tier": tier, "repo_head": sh("git -C %s rev-parse HEAD" % REPO)[1].strip()}
    broken = []
    for t in failed_thms:
        broken.append("theorem no longer checks: coq/%s: %s" % (cfg.get("props_file", "Props/%s.v" % pid), t))
    for g in gen_failed:
        broken.append("generated obligation no longer checks: " + json.dumps(g))
    if herr:
        broken.append(herr)
    for shard, err in shard_errors:
        broken.append("correspondence shard %s did not evaluate: %s" % (shard, err[-600:]))
    mism_list = []
    for shard, idxs in sorted(mism.items()):
        for i in idxs[:20]:
            g, d = case_descr(shard, i)
            mism_list.append({"shard": shard, "index_in_shard": i, "case": g, "input": d})
    if mism_list:
        broken.append("model and implementation disagree on %d case(s); first: %s case %d" % (
            sum(len(v) for v in mism.values()), mism_list[0]["shard"], mism_list[0]["index_in_shard"]))

    if unknown_fail:
        # a concrete failing input of the property itself
        first = unknown_fail[0]
        payload = dict(base, kind="failing-input", what=first.get("what"), site=first.get("site"),
                       input=first.get("input"), case=first.get("case"),
                       other_failures=len(unknown_fail) - 1, broken=broken, mismatches=mism_list[:5],
                       how_to_replay="./check %s --replay <this file>  (re-runs the harness with the recorded seed; the case index identifies the input)" % pid)
        violations.append((payload, True))
    elif broken:
        payload = dict(base, kind="broken-tie-or-proof", broken=broken, mismatches=mism_list[:10],
                       note="no input violating the property was found by the independent oracle on %d checks; the property is no longer shown to hold" % (rep.get("oracle_checks", 0) if rep else 0))
        violations.append((payload, False))

    # 5. evidence -----------------------------------------------------------
    n_thm = len(theorems)
    n_obl = n_thm + n_gen + (len(rep["shards"]) if rep else 0)
    n_dis = (n_thm - len([t for t in failed_thms])) if ok_build else 0
    n_dis = max(n_dis, 0) + (n_gen - len(gen_failed)) + (len(rep["shards"]) - len(mism) - len(shard_errors) if rep else 0)
    axioms = sorted({ax for v in assumptions.values() for ax in v})
    tb = list(COMMON_TRUSTED) + cfg.get("trusted_base", [])
    tb.append("axioms reported by Print Assumptions for the property theorems: " + (", ".join(axioms) if axioms else "none (all closed under the global context)"))
    cov = {
        "obligations": n_obl,
        "discharged": n_dis,
        "checker_cmd": "cd /verif/coq && ./mk.sh (coq_makefile + make, full .vo) ; coqc -Q . CSS Props/%s.v ; coqc -Q . CSS gen/Cases_%s_*.v" % (pid, pid),
        "trusted_base": tb,
        "theorems": theorems,
        "theorem_assumptions": assumptions,
        "generated_obligations": n_gen,
        "correspondence_shards": len(rep["shards"]) if rep else 0,
        "evaluations": rep["cases"] if rep else 0,
        "distinct_nontrivial": rep["distinct_nontrivial"] if rep else 0,
        "rule": rep["rule"] if rep else "",
        "samples": (rep["samples"] if rep and rep["samples"] else [{"note": "no cases produced"}]),
        "traces_validated_against_impl": rep["cases"] if rep else 0,
        "input_distribution": rep["distribution"] if rep else {},
        "independent_oracle_checks": rep.get("oracle_checks", 0) if rep else 0,
        "oracle_failures": len(rep.get("oracle_failures") or []) if rep else 0,
        "model_impl_mismatches": sum(len(v) for v in mism.values()),
        "known_findings_reconfirmed": known_lines,
        "shard_seconds": shard_times,
        "extra": rep.get("extra", {}) if rep else {},
        "explanation": cfg.get("explanation", ""),
    }
    if coqchk:
        cov["coqchk"] = coqchk
    if SIGKILLED:
        cov["rerun_after_sigkill"] = SIGKILLED
    if gen_info:
        cov["translator"] = {k: v[-600:] for k, v in gen_info.items()}
    ev = {
        "property_id": pid, "tier": tier, "seed": seed, "level": cfg.get("level", "proof"),
        "coverage": cov,
        "assumptions": cfg.get("assumptions", []),
        "wall_s": round(time.time() - t0, 1),
        "violations": len(violations),
    }
    evdir = os.path.join(ROOT, "evidence") if not ALT else GEN
    os.makedirs(evdir, exist_ok=True)
    with open(os.path.join(evdir, pid + ".json"), "w") as f:
        json.dump(ev, f, indent=1, sort_keys=True, default=str)
        f.write("\n")

    # 6. report ---------------------------------------------------------------
    for l in known_lines:
        print(l)
    print("%s: %d theorem(s) re-checked, %d generated obligation(s), %d case(s) in %d shard(s), %d oracle check(s); %.1fs" % (
        pid, n_thm, n_gen, cov["evaluations"], cov["correspondence_shards"], cov["independent_oracle_checks"], time.time() - t0))
    if violations:
        for payload, found in violations:
            p = write_replay(pid, payload)
            if found:
                print("  failing input: %s" % payload.get("what"))
                print("VIOLATION property=%s replay=%s" % (pid, p))
            else:
                for b in payload["broken"][:5]:
                    print("  broken: %s" % b[:600])
                print("VIOLATION property=%s replay=%s no-failing-input-found" % (pid, p))
        if os.environ.get("VERIF_DEBUG"):
            for name, rc, out in log:
                print("---- %s (rc=%s)\n%s" % (name, rc, out))
        return 1
    print("OK property=%s" % pid)
    return 0
